#!/bin/sh
# dev helper: build one harness configuration (default rel) and print errors
cd /verif && python3 - "$@" <<'PY'
import sys, importlib.machinery, importlib.util
cfg = sys.argv[1] if len(sys.argv) > 1 else 'rel'
loader=importlib.machinery.SourceFileLoader('check','/verif/check')
spec=importlib.util.spec_from_loader('check',loader); m=importlib.util.module_from_spec(spec); loader.exec_module(m)
try:
    print(m.build(cfg))
except m.Inconclusive as e:
    print(e); sys.exit(1)
PY
