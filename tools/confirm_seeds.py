#!/usr/bin/env python3
"""Confirm the seeded mutations produced by the sub-agents, independently, in their scratch worktrees:
apply patch -> build (plain + verif-hooks) -> existing suite unchanged (39 pass) -> demo FAILS;
revert -> demo PASSES. Confirmed seeds are copied to /verif/seeded/<prop>-m<k>/.

usage: confirm_seeds.py [prop ...]      (worktrees /tmp/wt/<prop>, outputs of the agents in out/m<k>)"""
import json, os, re, shutil, subprocess, sys
from concurrent.futures import ThreadPoolExecutor

WT = "/tmp/wt"
SEEDED = "/verif/seeded"
HEAD = subprocess.run(["git", "-C", "/repo", "rev-parse", "HEAD"], stdout=subprocess.PIPE, text=True).stdout.strip()
ENV = dict(os.environ, CARGO_NET_OFFLINE="true", CARGO_TERM_COLOR="never")
FMA = {"RUSTFLAGS": "-C target-feature=+fma"}

# (location, extra cargo args, extra env, separate target dir?)
SPECIAL = {
    "C03-m3": ("root", ["--no-default-features"], {}, False),
    "C05-m3": ("root", ["--no-default-features"], {}, False),
    "C10-m3": ("root", ["--no-default-features"], {}, False),
    "C04-m3": ("root", [], FMA, True),
    "C20-m2": ("root", [], FMA, True),
    "C07-m3": ("root", ["--features", "verif-hooks"], {}, False),
    "C18-m1": ("math", [], {}, False),
    "C18-m3": ("math", [], {}, False),
    "C19-m2": ("math", [], {}, False),
    "C19-m3": ("math", [], {}, False),
    "C19-m1": ("math", [], FMA, True),
    "C18-m2": ("math-manifest", ["--features", "verif-hooks"], {}, False),
    "C20-m1": ("math-manifest", ["--no-default-features"], FMA, True),
    # round two (worktrees /tmp/wt/R2<prop>, seeds <prop>-r2m<k>)
    "C05-r2m2": ("root", [], FMA, True),
    "C07-r2m1": ("root", ["--features", "verif-hooks"], {}, False),
    "C07-r2m2": ("root", ["--features", "verif-hooks"], {}, False),
    "C07-r2m3": ("miri", [], {}, False),
    "C19-r2m1": ("math", [], {}, False),
    "C19-r2m2": ("math", [], {}, False),
    "C19-r2m3": ("math", [], {}, False),
    "C18-r2m1": ("math", [], {}, False),
    "C18-r2m2": ("math", [], {}, False),
    "C18-r2m3": ("math", [], {}, False),
    # round three
    "C07-r3m1": ("root", ["--release", "--features", "verif-hooks"], {}, False),
    "C07-r3m2": ("miri", [], {}, False),
    "C07-r3m3": ("root", ["--features", "verif-hooks"], {}, False),
    "C20-r3m1": ("root", ["--no-default-features"], {}, False),
    "C20-r3m2": ("root", [], FMA, True),
    "C20-r3m3": ("math-manifest", ["--no-default-features"], {}, False),
    "C03-r3m3": ("root", [], FMA, True),
    "C11-r3m3": ("root", [], FMA, True),
}


def sh(cmd, cwd, env=None, timeout=1800):
    r = subprocess.run(cmd, cwd=cwd, env=dict(ENV, **(env or {})), stdout=subprocess.PIPE, stderr=subprocess.STDOUT, text=True, timeout=timeout)
    return r.returncode, r.stdout


def suite(wt):
    rc, out = sh(["cargo", "test", "--workspace", "--no-fail-fast", "--offline"], wt)
    passed = sorted(set(re.findall(r"^test (\S+) \.\.\. ok$", out, re.M)))
    failed = sorted(set(re.findall(r"^test (\S+) \.\.\. FAILED$", out, re.M)))
    return passed, failed


FLAGS = {
    "default": ("root", [], {}, False),
    "no-default-features": ("root", ["--no-default-features"], {}, False),
    "fma": ("root", [], FMA, True),
    "release": ("root", ["--release"], {}, False),
    "verif-hooks": ("root", ["--features", "verif-hooks"], {}, False),
    "release+verif-hooks": ("root", ["--release", "--features", "verif-hooks"], {}, False),
    "miri": ("miri", [], {}, False),
    "math-crate": ("math", [], {}, False),
    "math-crate+no-default-features": ("math-manifest", ["--no-default-features"], {}, False),
    "math-crate+fma": ("math", [], FMA, True),
}


def demo_cmd(key, wt, mdir):
    spec = SPECIAL.get(key)
    if spec is None:
        try:
            flags = json.load(open(os.path.join(mdir, "meta.json"))).get("demo_flags", "default")
        except Exception:
            flags = "default"
        spec = FLAGS.get(flags, FLAGS["default"])
    loc, args, env, sep = spec
    env = dict(env)
    if sep:
        env["CARGO_TARGET_DIR"] = os.path.join(wt, "target-alt")
    if loc == "miri":
        dst = os.path.join(wt, "tests", "demo.rs")
        cmd = ["cargo", "+nightly", "miri", "test", "--offline", "--test", "demo"] + args
    elif loc == "root":
        dst = os.path.join(wt, "tests", "demo.rs")
        cmd = ["cargo", "test", "--offline", "--test", "demo"] + args
    elif loc == "math":
        dst = os.path.join(wt, "yuvxyb-math", "tests", "demo.rs")
        cmd = ["cargo", "test", "--offline", "-p", "yuvxyb-math", "--test", "demo"] + args
    else:
        dst = os.path.join(wt, "yuvxyb-math", "tests", "demo.rs")
        cmd = ["cargo", "test", "--offline", "--manifest-path", "yuvxyb-math/Cargo.toml", "--test", "demo"] + args
    return dst, cmd, env


def clean(wt):
    sh(["git", "checkout", "--", "."], wt)
    for d in ("tests", "yuvxyb-math/tests"):
        shutil.rmtree(os.path.join(wt, d), ignore_errors=True)
    for f in ("yuvxyb-math/Cargo.lock",):
        try:
            os.remove(os.path.join(wt, f))
        except OSError:
            pass


def confirm(wtname):
    # "C07" -> worktree /tmp/wt/C07, seeds C07-m<k>;  "R2C07" -> worktree /tmp/wt/R2C07, seeds C07-r2m<k>
    mm = re.fullmatch(r"R(\d)(C\d\d)", wtname)
    r2 = bool(mm)
    rnd = mm.group(1) if mm else ""
    prop = mm.group(2) if mm else wtname
    wt = os.path.join(WT, wtname)
    res = []
    clean(wt)
    sh(["git", "checkout", "-q", "--detach", HEAD], wt)
    base_pass, base_fail = suite(wt)
    for k in (1, 2, 3):
        key = f"{prop}-r{rnd}m{k}" if r2 else f"{prop}-m{k}"
        mdir = os.path.join(wt, "out", f"m{k}")
        if not os.path.exists(os.path.join(mdir, "patch.diff")):
            continue
        rec = {"seed": key, "head": HEAD, "ran": []}
        clean(wt)
        rc, out = sh(["git", "apply", os.path.join(mdir, "patch.diff")], wt)
        rec["applies"] = rc == 0
        rec["ran"].append("git apply patch.diff")
        if rc != 0:
            rec["error"] = out[-500:]
            res.append(rec)
            continue
        rc1, o1 = sh(["cargo", "build", "--offline"], wt)
        rc2, o2 = sh(["cargo", "build", "--offline", "--features", "verif-hooks"], wt)
        rec["builds"] = rc1 == 0 and rc2 == 0
        rec["ran"] += ["cargo build --offline", "cargo build --offline --features verif-hooks"]
        p, f = suite(wt)
        rec["suite_passed"] = len(p)
        rec["suite_same_as_clean"] = (p == base_pass and f == base_fail)
        rec["ran"].append("cargo test --workspace --no-fail-fast --offline")
        dst, cmd, env = demo_cmd(key, wt, mdir)
        os.makedirs(os.path.dirname(dst), exist_ok=True)
        shutil.copy(os.path.join(mdir, "demo.rs"), dst)
        rc, out = sh(cmd, wt, env)
        rec["demo_fails_with_patch"] = rc != 0 and ("test result: FAILED" in out or "panicked" in out or "error: test failed" in out or "Undefined Behavior" in out)
        rec["demo_cmd"] = (" ".join(f"{a}={b}" for a, b in env.items() if a != "CARGO_TARGET_DIR") + " " + " ".join(cmd)).strip() + f"   (demo.rs at {os.path.relpath(dst, wt)})"
        rec["demo_output_tail_with_patch"] = out[-600:]
        sh(["git", "checkout", "--", "."], wt)
        rc, out = sh(cmd, wt, env)
        rec["demo_passes_without_patch"] = rc == 0
        if rc != 0:
            rec["demo_output_tail_clean"] = out[-600:]
        rec["confirmed"] = bool(rec["applies"] and rec["builds"] and rec["suite_same_as_clean"] and rec["suite_passed"] == 39 and rec["demo_fails_with_patch"] and rec["demo_passes_without_patch"])
        res.append(rec)
        if rec["confirmed"]:
            d = os.path.join(SEEDED, key)
            os.makedirs(d, exist_ok=True)
            shutil.copy(os.path.join(mdir, "patch.diff"), os.path.join(d, "patch.diff"))
            shutil.copy(os.path.join(mdir, "demo.rs"), os.path.join(d, "demo.rs"))
            try:
                meta = json.load(open(os.path.join(mdir, "meta.json")))
            except Exception:
                meta = {}
            out_meta = {
                "property": prop,
                "seed": key,
                "summary": meta.get("summary"),
                "needs": meta.get("needs"),
                "why_tests_pass": meta.get("why_tests_pass"),
                "confirmed_by_main_session": {k2: rec[k2] for k2 in ("head", "ran", "demo_cmd", "suite_passed", "suite_same_as_clean", "demo_fails_with_patch", "demo_passes_without_patch")},
            }
            json.dump(out_meta, open(os.path.join(d, "meta.json"), "w"), indent=1)
        clean(wt)
    shutil.rmtree(os.path.join(wt, "target-alt"), ignore_errors=True)
    return res


def main():
    props = sys.argv[1:] or sorted(p for p in os.listdir(WT) if re.fullmatch(r"(R\d)?C\d\d", p))
    allres = []
    with ThreadPoolExecutor(max_workers=int(os.environ.get("JOBS", "5"))) as ex:
        for r in ex.map(confirm, props):
            allres += r
            for rec in r:
                print(rec["seed"], "CONFIRMED" if rec.get("confirmed") else "NOT-CONFIRMED", {k: rec.get(k) for k in ("applies", "builds", "suite_passed", "suite_same_as_clean", "demo_fails_with_patch", "demo_passes_without_patch")}, flush=True)
    json.dump(allres, open("/tmp/confirm_seeds.json", "w"), indent=1)


if __name__ == "__main__":
    main()
