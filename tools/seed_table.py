#!/usr/bin/env python3
"""Regenerates the seeded-mutation table in DESIGN.md (between the SEEDS markers) from seeded/*/meta.json and seeded/RESULTS-*.json."""
import json, os, re
ROOT = os.path.dirname(os.path.dirname(os.path.abspath(__file__)))
S = os.path.join(ROOT, "seeded")
res = {}
for tier in ("quick", "thorough"):
    p = os.path.join(S, f"RESULTS-{tier}.json")
    if os.path.exists(p):
        for r in json.load(open(p)):
            res.setdefault(r["seed"], {})[tier] = r
rows = []
for seed in sorted(d for d in os.listdir(S) if os.path.isdir(os.path.join(S, d))):
    m = json.load(open(os.path.join(S, seed, "meta.json")))
    summ = (m.get("summary") or "").replace("\n", " ").replace("|", "/")
    summ = summ[:170] + ("…" if len(summ) > 170 else "")
    needs = (m.get("needs") or "").replace("\n", " ").replace("|", "/")
    needs = needs[:130] + ("…" if len(needs) > 130 else "")
    cell = "not run"
    r = res.get(seed, {}).get("quick")
    if r and "checks" in r:
        own = r["checks"].get(r["property"], {})
        det = [p for p, c in r["checks"].items() if c.get("detected")]
        if own.get("detected"):
            sig = (own.get("signatures") or ["?"])[0].replace("|", "/")
            cell = f"**{r['property']}** `{sig[:70]}`"
            extra = [p for p in det if p != r["property"]]
            if extra:
                cell += " (+" + ",".join(extra) + ")"
        elif det:
            cell = "missed by " + r["property"] + "; caught by " + ",".join(det)
        else:
            cell = "MISSED" if own.get("exit") == 0 else f"exit {own.get('exit')}"
    rows.append(f"| {seed} | {summ} | {needs} | {cell} |")
table = "| seed | change | needs | caught by (quick tier, first signature) |\n|---|---|---|---|\n" + "\n".join(rows)
p = os.path.join(ROOT, "DESIGN.md")
s = open(p).read()
b, e = "<!-- SEEDS-BEGIN -->", "<!-- SEEDS-END -->"
if b in s:
    s = s[:s.index(b) + len(b)] + "\n" + table + "\n" + s[s.index(e):]
    open(p, "w").write(s)
    print("table updated:", len(rows), "seeds")
else:
    print(table)
