#!/usr/bin/env python3
"""Mechanical mutation campaign against the checks (complements the hand-made seeds in /verif/seeded).

Generates single-token mutants of the library's non-test code (literal tweaks, operator swaps, min/max), and
for each mutant, in a scratch worktree of /repo (never /repo itself):
  1. cargo build            -> "no-compile" mutants are dropped
  2. the repo's own suite   -> mutants that change its outcome are "killed-by-tests" (not our business)
  3. the registered quick checks with VERIF_REPO=<tree>, most relevant first, stopping at the first VIOLATION
Survivors (every check HELD) are listed for manual triage: equivalent / outside every property / a blind spot.

usage: mutants.py [--n 200] [--seed 1] [--lanes 4] [--only file-substring] [--list]
results: /verif/seeded/MUTANTS.json (+ table on stdout)"""
import json, os, random, re, subprocess, sys, time
from concurrent.futures import ThreadPoolExecutor

ROOT = "/verif"
ENV = dict(os.environ, CARGO_NET_OFFLINE="true", CARGO_TERM_COLOR="never")
FILES = ["src/yuv_rgb.rs", "src/yuv_rgb/transfer.rs", "src/yuv_rgb/color.rs", "src/rgb_xyb.rs", "src/hsl.rs", "src/linear_rgb.rs", "src/rgb.rs",
         "src/xyb.rs", "src/yuv.rs", "yuvxyb-math/src/cbrtf.rs", "yuvxyb-math/src/pow_exp.rs", "yuvxyb-math/src/mul_add.rs", "yuvxyb-math/src/matrix.rs"]
ALL = [f"C{i:02d}" for i in range(1, 21)]
ORDER = {
    "src/yuv_rgb.rs": ["C01", "C02", "C08", "C16", "C11", "C09", "C13", "C12", "C07"],
    "src/yuv_rgb/transfer.rs": ["C03", "C10", "C16", "C09", "C13", "C11", "C14", "C20"],
    "src/yuv_rgb/color.rs": ["C06", "C01", "C02", "C14", "C09", "C16", "C15", "C11"],
    "src/rgb_xyb.rs": ["C04", "C05", "C09", "C16", "C13", "C11"],
    "src/hsl.rs": ["C17", "C16", "C13", "C11"],
    "src/linear_rgb.rs": ["C17", "C12", "C03", "C06", "C15", "C14", "C11", "C09"],
    "src/rgb.rs": ["C12", "C15", "C03", "C06", "C14", "C09", "C11"],
    "src/xyb.rs": ["C12", "C09", "C04", "C05", "C14", "C15", "C11"],
    "src/yuv.rs": ["C12", "C15", "C14", "C09", "C13", "C07", "C02"],
    "yuvxyb-math/src/cbrtf.rs": ["C18", "C04", "C05", "C20"],
    "yuvxyb-math/src/pow_exp.rs": ["C18", "C03", "C10", "C20", "C13"],
    "yuvxyb-math/src/mul_add.rs": ["C18", "C19", "C03", "C04", "C20"],
    "yuvxyb-math/src/matrix.rs": ["C19", "C06", "C01", "C02", "C04"],
}

SWAPS = [(" + ", " - "), (" - ", " + "), (" * ", " / "), (" / ", " * "), (" < ", " <= "), (" <= ", " < "), (" > ", " >= "), (" >= ", " > "),
         (" == ", " != "), (" != ", " == "), (" && ", " || "), (" || ", " && "), (" >> ", " << "), (".min(", ".max("), (".max(", ".min("),
         (" += ", " -= "), (" -= ", " += "), (" *= ", " /= ")]
# semantic operators (second campaign): sibling identifiers, enum variants, dropped clamps, booleans
IDENT_SWAPS = [("ss_x", "ss_y"), ("ss_y", "ss_x"), ("width", "height"), ("height", "width"), ("u_", "v_"), ("v_", "u_"), ("kr", "kb"), ("kb", "kr"),
               ("xdec", "ydec"), ("subsampling_x", "subsampling_y"), ("subsampling_y", "subsampling_x"), ("xorigin", "yorigin"), ("r1", "r2"), ("r2", "r3"),
               ("c1", "c2"), ("c2", "c3"), ("[0]", "[1]"), ("[1]", "[2]"), ("[2]", "[0]"), (".r()", ".g()"), (".g()", ".b()"), ("to_linear", "to_gamma"),
               ("full_range", "!full_range"), ("true", "false"), ("false", "true"), ("chroma_width", "chroma_height"), ("y_stride", "u_stride"), ("max", "min")]
VARIANT = re.compile(r"\b(TransferCharacteristic|MatrixCoefficients|ColorPrimaries)::([A-Za-z0-9]+)")
VARIANTS = {
    "TransferCharacteristic": ["BT1886", "BT470M", "BT470BG", "ST170M", "ST240M", "Linear", "Logarithmic100", "Logarithmic316", "XVYCC", "BT1361E", "SRGB", "BT2020Ten", "BT2020Twelve", "PerceptualQuantizer", "ST428", "HybridLogGamma"],
    "MatrixCoefficients": ["Identity", "BT709", "BT470M", "BT470BG", "ST170M", "ST240M", "YCgCo", "BT2020NonConstantLuminance", "BT2020ConstantLuminance", "ST2085", "ChromaticityDerivedNonConstantLuminance", "ICtCp"],
    "ColorPrimaries": ["BT709", "BT470M", "BT470BG", "ST170M", "ST240M", "Film", "BT2020", "ST428", "P3DCI", "P3Display", "Tech3213"],
}
DROPCALL = re.compile(r"\.(max|min|clamp|abs)\((?:[^()]|\([^()]*\))*\)")
FLOAT = re.compile(r"(?<![\w.])(\d+\.\d+(?:e-?\d+)?)(?![\w.]*\()")
INT = re.compile(r"(?<![\w.])(\d+)(?![\w.])")


def sh(cmd, cwd=None, env=None, timeout=3600):
    r = subprocess.run(cmd, cwd=cwd, env=env or ENV, stdout=subprocess.PIPE, stderr=subprocess.STDOUT, text=True, timeout=timeout)
    return r.returncode, r.stdout


def code_lines(path):
    """(line number, text) of non-test, non-comment, non-hook lines"""
    out = []
    in_block = False
    for i, l in enumerate(open(path).read().split("\n")):
        if "#[cfg(test)]" in l:
            break
        s = l.strip()
        if in_block:
            if "*/" in s:
                in_block = False
            continue
        if s.startswith("/*"):
            in_block = "*/" not in s
            continue
        if not s or s.startswith("//") or s.startswith("#[") or s.startswith("#![") or s.startswith("use ") or s.startswith("pub use ") or "verif::" in s or "verif-hooks" in s:
            continue
        if s.startswith("///") or s.startswith("//!") or "log::" in s or "warn!" in s or "write!(" in s or "assert" in s:
            continue
        out.append((i, l))
    return out


def candidates(repo, semantic=False):
    c = []
    for f in FILES:
        for i, l in code_lines(os.path.join(repo, f)):
            code = l.split("//")[0]
            if semantic:
                for a, b in IDENT_SWAPS:
                    for m in re.finditer(r"(?<![A-Za-z0-9])" + re.escape(a) + (r"(?![A-Za-z0-9_])" if a[-1].isalnum() else ""), code):
                        if a in ("max", "min") and not code[m.end():].startswith("("):
                            continue
                        c.append((f, i, m.start(), a, b, f"{a} -> {b}"))
                for m in VARIANT.finditer(code):
                    vs = VARIANTS[m.group(1)]
                    if m.group(2) in vs:
                        nv = vs[(vs.index(m.group(2)) + 1) % len(vs)]
                        c.append((f, i, m.start(2), m.group(2), nv, f"{m.group(1)}::{m.group(2)} -> {nv}"))
                for m in DROPCALL.finditer(code):
                    c.append((f, i, m.start(), m.group(0), "", f"drop {m.group(0)}"))
                continue
            for a, b in SWAPS:
                for m in re.finditer(re.escape(a), code):
                    # skip generics / arrows / lifetimes
                    if a.strip() in ("<", ">", ">=", "<=", ">>") and re.search(r"(impl|fn|where|->|Vec<|Result<|Option<|: [A-Z])", code):
                        continue
                    c.append((f, i, m.start(), a, b, f"{a.strip()} -> {b.strip()}"))
            for m in FLOAT.finditer(code):
                v = float(m.group(1))
                for fac, name in ((1.001, "x1.001"), (1.1, "x1.1")):
                    nv = v * fac if v != 0.0 else (1e-3 if fac < 1.01 else 0.1)
                    c.append((f, i, m.start(1), m.group(1), repr(nv), f"{m.group(1)} {name}"))
            for m in INT.finditer(code):
                if re.search(r"(\[f32; |\[T; |u8|u16|u32|usize; |f32; )", code[max(0, m.start() - 8):m.end() + 6]) and "[" in code[max(0, m.start() - 8):m.start()]:
                    continue
                v = int(m.group(1))
                c.append((f, i, m.start(1), m.group(1), str(v + 1), f"{v} -> {v + 1}"))
    return c


def lane_tree(i):
    d = f"/tmp/wt/mutlane{i}"
    if not os.path.exists(d):
        rc, out = sh(["git", "-C", "/repo", "worktree", "add", "-q", "--detach", d, "HEAD"])
        assert rc == 0, out
    else:
        sh(["git", "checkout", "--", "."], cwd=d)
        head = subprocess.run(["git", "-C", "/repo", "rev-parse", "HEAD"], stdout=subprocess.PIPE, text=True).stdout.strip()
        sh(["git", "checkout", "-q", "--detach", head], cwd=d)
    return d


def suite(tree):
    rc, out = sh(["cargo", "test", "--workspace", "--no-fail-fast", "--offline"], tree)
    if "error: could not compile" in out or "error[E" in out:
        return None
    passed = sorted(set(re.findall(r"^test (\S+) \.\.\. ok$", out, re.M)))
    failed = sorted(set(re.findall(r"^test (\S+) \.\.\. FAILED$", out, re.M)))
    return passed, failed


def run_mutant(args):
    k, mut, lane, base = args
    f, line, col, old, new, desc = mut
    tree = lane_tree(lane)
    path = os.path.join(tree, f)
    lines = open(path).read().split("\n")
    l = lines[line]
    assert l[col:col + len(old)] == old, (f, line, col, old, l)
    lines[line] = l[:col] + new + l[col + len(old):]
    open(path, "w").write("\n".join(lines))
    rec = {"id": k, "file": f, "line": line + 1, "mutation": desc, "before": l.strip()[:160], "after": lines[line].strip()[:160]}
    t0 = time.time()
    try:
        res = suite(tree)
        if res is None:
            rec["status"] = "no-compile"
            return rec
        if res != base:
            rec["status"] = "killed-by-tests"
            rec["tests_now_failing"] = [t for t in res[1] if t not in base[1]][:5]
            return rec
        outdir = f"/tmp/val/mutants/{k}"
        os.makedirs(outdir + "/evidence", exist_ok=True)
        os.makedirs(outdir + "/replay", exist_ok=True)
        order = ORDER.get(f, []) + [p for p in ALL if p not in ORDER.get(f, [])]
        rec["held"], rec["inconclusive"] = [], []
        for p in order:
            env = dict(ENV, VERIF_REPO=tree, VERIF_STALL="20", VERIF_EVIDENCE_DIR=outdir + "/evidence", VERIF_REPLAY_DIR=outdir + "/replay")
            rc, out = sh([os.path.join(ROOT, "check"), p, "quick"], env=env)
            if rc == 1:
                sigs = []
                for rp in re.findall(r"^VIOLATION property=\S+ replay=(\S+)$", out, re.M):
                    try:
                        sigs.append(json.load(open(rp))["signature"])
                    except Exception:
                        pass
                rec.update(status="detected", by=p, signatures=sigs[:4], checks_run=len(rec["held"]) + 1)
                return rec
            (rec["held"] if rc == 0 else rec["inconclusive"]).append(p)
        rec["status"] = "survived"
        return rec
    finally:
        rec["wall_s"] = round(time.time() - t0, 1)
        sh(["git", "checkout", "--", "."], cwd=tree)
        print(f"[{k}] {rec.get('status')} {rec.get('by', '')} {f}:{line + 1} {desc}", flush=True)


def main():
    a = sys.argv[1:]
    n, seed, lanes, only, listing, semantic = 200, 1, 4, None, False, False
    while a:
        x = a.pop(0)
        if x == "--n":
            n = int(a.pop(0))
        elif x == "--seed":
            seed = int(a.pop(0))
        elif x == "--lanes":
            lanes = int(a.pop(0))
        elif x == "--only":
            only = a.pop(0)
        elif x == "--list":
            listing = True
        elif x == "--semantic":
            semantic = True
    cands = candidates("/repo", semantic)
    if only:
        cands = [c for c in cands if only in c[0]]
    rnd = random.Random(seed)
    # stratify by file: equal share per file first, the rest proportional
    byfile = {}
    for c in cands:
        byfile.setdefault(c[0], []).append(c)
    pick = []
    share = max(1, n // (2 * len(byfile)))
    for f, cs in byfile.items():
        rnd.shuffle(cs)
        pick += cs[:share]
    rest = [c for f, cs in byfile.items() for c in cs[share:]]
    rnd.shuffle(rest)
    pick += rest[:max(0, n - len(pick))]
    print(f"{len(cands)} candidate mutations in {len(byfile)} files; running {len(pick)}", flush=True)
    if listing:
        for c in pick:
            print(c[0], c[1] + 1, c[5])
        return
    base = suite(lane_tree(0))
    assert base is not None and len(base[0]) == 39, base
    chunks = [list(enumerate(pick))[i::lanes] for i in range(lanes)]

    def work(i):
        return [run_mutant((f"{'m' if semantic else 's'}{seed}-{k}", m, i, base)) for k, m in chunks[i]]

    results = []
    with ThreadPoolExecutor(max_workers=lanes) as ex:
        for rs in ex.map(work, range(lanes)):
            results += rs
    path = os.path.join(ROOT, "seeded", "MUTANTS.json")
    old = {}
    if os.path.exists(path):
        old = {r["id"]: r for r in json.load(open(path))}
    for r in results:
        old[r["id"]] = r
    json.dump(sorted(old.values(), key=lambda r: r["id"]), open(path, "w"), indent=1)
    tally = {}
    for r in results:
        tally[r["status"]] = tally.get(r["status"], 0) + 1
    print(tally)
    for r in results:
        if r["status"] == "survived":
            print("SURVIVED", r["file"], r["line"], r["mutation"], "|", r["after"])


if __name__ == "__main__":
    main()
