#!/usr/bin/env python3
"""Run the registered checks against the seeded mutations in /verif/seeded.

Each seed is applied to a scratch worktree of /repo (never to /repo itself), the check of the property it
targets is run with VERIF_REPO pointing there (identical machinery, separate target dir, evidence redirected),
and the patch is reverted. Results: /verif/seeded/RESULTS.json and a table on stdout.

usage: run_seeds.py [--tier quick|thorough] [--lanes N] [--also C07,C13] [seed ...]"""
import json, os, re, subprocess, sys, time
from concurrent.futures import ThreadPoolExecutor

SEEDED = "/verif/seeded"
ROOT = os.environ.get("SEEDS_CHECK_ROOT", "/verif")  # an older snapshot of /verif can be measured for comparison
RESULT_TAG = os.environ.get("SEEDS_RESULT_TAG", "")
ENV = dict(os.environ, CARGO_NET_OFFLINE="true")


def sh(cmd, cwd=None, env=None, timeout=7200):
    r = subprocess.run(cmd, cwd=cwd, env=env or ENV, stdout=subprocess.PIPE, stderr=subprocess.STDOUT, text=True, timeout=timeout)
    return r.returncode, r.stdout


def lane_tree(i):
    d = f"/tmp/wt/seedlane{RESULT_TAG}{i}"
    if not os.path.exists(d):
        rc, out = sh(["git", "-C", "/repo", "worktree", "add", "-q", "--detach", d, "HEAD"])
        assert rc == 0, out
    else:
        sh(["git", "checkout", "--", "."], cwd=d)
        head = subprocess.run(["git", "-C", "/repo", "rev-parse", "HEAD"], stdout=subprocess.PIPE, text=True).stdout.strip()
        sh(["git", "checkout", "-q", "--detach", head], cwd=d)
    return d


def run_seed(args):
    seed, lane, tier, also = args
    tree = lane_tree(lane)
    sd = os.path.join(SEEDED, seed)
    meta = json.load(open(os.path.join(sd, "meta.json")))
    prop = meta["property"]
    rc, out = sh(["git", "apply", os.path.join(sd, "patch.diff")], cwd=tree)
    if rc != 0:
        return {"seed": seed, "error": "patch does not apply: " + out[-300:]}
    res = {"seed": seed, "property": prop, "tier": tier, "checks": {}}
    outdir = f"/tmp/val/seeds{RESULT_TAG}/{seed}"
    os.makedirs(outdir + "/evidence", exist_ok=True)
    os.makedirs(outdir + "/replay", exist_ok=True)
    try:
        for p in [prop] + [a for a in also if a != prop]:
            env = dict(ENV, VERIF_REPO=tree, VERIF_STALL="20", VERIF_EVIDENCE_DIR=outdir + "/evidence", VERIF_REPLAY_DIR=outdir + "/replay")
            t0 = time.time()
            rc, out = sh([os.path.join(ROOT, "check"), p, tier], env=env)
            sigs = []
            for rp in re.findall(r"^VIOLATION property=\S+ replay=(\S+)$", out, re.M):
                try:
                    sigs.append(json.load(open(rp))["signature"])
                except Exception:
                    pass
            incon = re.findall(r"^INCONCLUSIVE property=\S+ (.*)$", out, re.M)
            res["checks"][p] = {"exit": rc, "detected": rc == 1, "signatures": sigs[:8], "n_signatures": len(sigs), "inconclusive": incon[:3], "wall_s": round(time.time() - t0, 1)}
            open(f"{outdir}/{p}.log", "w").write(out[-20000:])
    finally:
        sh(["git", "checkout", "--", "."], cwd=tree)
    return res


def main():
    a = sys.argv[1:]
    tier, lanes, also, seeds = "quick", 2, [], []
    while a:
        x = a.pop(0)
        if x == "--tier":
            tier = a.pop(0)
        elif x == "--lanes":
            lanes = int(a.pop(0))
        elif x == "--also":
            also = a.pop(0).split(",")
        else:
            seeds.append(x)
    if not seeds:
        seeds = sorted(d for d in os.listdir(SEEDED) if os.path.exists(os.path.join(SEEDED, d, "patch.diff")))
    # one lane works through its seeds sequentially (a lane = one scratch tree + its build cache)
    chunks = [seeds[i::lanes] for i in range(lanes)]

    def work(i):
        return [run_seed((s, i, tier, also)) for s in chunks[i]]

    results = []
    with ThreadPoolExecutor(max_workers=lanes) as ex:
        for rs in ex.map(work, range(lanes)):
            results += rs
    results.sort(key=lambda r: r["seed"])
    path = os.path.join(SEEDED, f"RESULTS-{tier}.json") if not RESULT_TAG else f"/tmp/val/RESULTS-{tier}{RESULT_TAG}.json"
    old = {}
    if os.path.exists(path):
        old = {r["seed"]: r for r in json.load(open(path))}
    for r in results:
        old[r["seed"]] = r
    json.dump(sorted(old.values(), key=lambda r: r["seed"]), open(path, "w"), indent=1)
    for r in results:
        if "error" in r:
            print(r["seed"], "ERROR", r["error"])
            continue
        c = r["checks"][r["property"]]
        others = [p for p, v in r["checks"].items() if p != r["property"] and v["detected"]]
        print(f"{r['seed']:8s} {'DETECTED' if c['detected'] else ('INCONCLUSIVE' if c['exit'] == 2 else 'MISSED  ')} by {r['property']} ({c['wall_s']}s) {c['signatures'][:2]} {('also: ' + ','.join(others)) if others else ''}")


if __name__ == "__main__":
    main()
