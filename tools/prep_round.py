#!/usr/bin/env python3
"""Prepare scratch worktrees for a round of seeding sub-agents: /tmp/wt/R<round>C<xx> with PROPERTY.md and TASK.md.
The agents get nothing from /verif: the task text below is self-contained (property text + one-line summaries of
the mutations already collected, so that they look for something else).

usage: prep_round.py <round> [prop ...]"""
import json, os, subprocess, sys

ROUND = sys.argv[1]
PROPS = {}
for l in open("/verif/properties.jsonl"):
    j = json.loads(l)
    PROPS[j["id"]] = j
props = sys.argv[2:] or sorted(PROPS)

OTHER = """V plane indexed with the U plane's stride; dropped remainder of a chunks_exact(4|8) loop; thread-local or static
one-entry caches with an incomplete key; tolerance-based "is grey / is black / is noise" shortcuts; fast paths
taken when stride == width; chroma value cached per column but not reset per row; off-by-one thresholds in the
Unspecified-metadata heuristics; swapped width/height; constants with a mistyped digit; wrong comparison
direction at a curve knee; code only compiled with the fma target feature or without the fastmath feature;
debug_assert that is too tight / assert demoted to debug_assert; warn-once flags that change behaviour on the
second call; scratch buffers that only grow; "skip repeated samples" shortcuts keyed on the previous output;
loop tails re-run over an overlapping lane; f32::clamp letting NaN through to an unchecked conversion;
reciprocal multiplication instead of division; lookup tables with an unwritten last entry;
behaviour that depends on whether a `log` logger is installed; lazily initialised process-wide tables that
are published before they are complete (races between the first calls of several threads); an in-domain value
that is only wrong when a NaN / infinite / out-of-range sample sits in the same pixel, block or frame; an exact
grey or exact 0.0 that is only wrong after a coloured pixel / at a flat index beyond 1024; shortcuts for
letterbox rows or constant chroma planes; thresholds on the image size (>= 2^20 or > 2^24 pixels, > 65536
columns, rows longer than 64 KiB, 16384-sample strips, sums that overflow u32); index tables narrowed to u16;
plane geometry that only hand-built PlaneConfigs have (decimation fields on the luma plane, odd origins,
U and V laid out differently, origin larger than the padding, offsets that wrap usize); the by-value TryFrom
impls diverging from the by-reference ones; flags computed at construction and stale after data_mut();
config labels rewritten although no pixel depends on them; generation counters that wrap after 65535 config
switches; a refused request (assert) that poisons a lock or leaves the FPU control word changed; exponents
of +-2^31 or exact power-of-two bases in powf; branches taken when two cone responses tie bit-exactly;
early-exit convergence tests in a multi-lane Newton iteration; fallbacks for badly conditioned matrices;
tie-breaking in a reordered dot product;
worker pools / band splits whose size depends on available_parallelism() (0 workers on one CPU, band heights
that break chroma-row alignment); align_to / SIMD paths that assume 16-byte aligned allocations; large stack
arrays that overflow small thread stacks; thread-locals with destructors used during thread teardown; fallbacks
taken when an allocation is refused; clone_from() that forgets a field; provenance flags ("produced by our own
encoder, so in nominal range"); comparing against the unresolved config instead of the resolved one; -0.0
handled by bit tricks or sign tests; constructors that normalise data (hue 360 -> 0); fast paths for special
powf exponents (0.5, 1.5, 2/3, -1, -0.5) and a zero base; flushing subnormal results; fused transfer+primaries
passes that pick the wrong direction for one curve family; per-pixel "equal channels" shortcuts with a merged
condition; whole-frame "solid colour" / "greyscale" shortcuts with a flawed test; early returns for images
without pixels that lose the dimensions; fast paths keyed on ss_x only (4:4:0 / 4:1:1 forgotten); hand-written
inverse fast paths for block-diagonal or triangular matrices; short-circuit `||` chains over resolver steps;
enum code points conflated across fields (Identity vs Reserved0)."""


def sh(cmd, cwd=None):
    return subprocess.run(cmd, cwd=cwd, stdout=subprocess.PIPE, stderr=subprocess.STDOUT, text=True)


for p in props:
    wt = f"/tmp/wt/R{ROUND}{p}"
    if not os.path.exists(wt):
        r = sh(["git", "-C", "/repo", "worktree", "add", "-q", "--detach", wt, "HEAD"])
        assert r.returncode == 0, r.stdout
    j = PROPS[p]
    open(f"{wt}/PROPERTY.md", "w").write(f"# Property {p}: {j['title']}\n\n{j['statement']}\n\nQuantification: {j['quantifier']['text']}\n")
    mine = []
    for d in sorted(os.listdir("/verif/seeded")):
        mp = f"/verif/seeded/{d}/meta.json"
        if d.startswith(p + "-") and os.path.exists(mp):
            s = (json.load(open(mp)).get("summary") or "").replace("\n", " ")
            mine.append("* " + s[:330])
    task = f"""# Task: seed realistic, hard-to-notice defects (round {ROUND})

You are working in a scratch git worktree of the Rust crate `yuvxyb` (rust-av/yuvxyb: converts images
between YUV, RGB, linear RGB, HSL and XYB; sub-crate `yuvxyb-math` has fast powf/cbrtf/expf and a 3x3
matrix type). The worktree is `{wt}`. Work ONLY inside `{wt}`. Do not read or write `/repo`, `/verif`
or any other directory. Do not `git commit`, do not create branches; leave the worktree's tracked files
unmodified when you finish (use `git checkout -- .` after saving each patch). No network: always pass
`--offline` to cargo.

The file `{wt}/PROPERTY.md` states one semantic property that the crate is supposed to satisfy.

Produce **two independent mutations** of the crate's source (`src/**`, `yuvxyb-math/src/**`, or the
`Cargo.toml` files), each as its own patch against the clean worktree, such that for each mutation:

1. the crate still compiles (`cargo build --offline`, also `cargo build --offline --features verif-hooks`);
2. the existing test suite still passes exactly as before: `cargo test --workspace --no-fail-fast --offline`
   gives 39 unit tests passing, 1 failing (`rgb_xyb::tests::xyb_to_rgb_correct`, a known pre-existing
   failure) and 1 doctest passing on the clean tree; the mutated tree must give the same result;
3. the property in PROPERTY.md is **violated** by the mutated code (as the property is literally stated:
   check the tolerances, domains and quantifiers; a change that stays inside a stated tolerance or outside
   the stated domain does not count);
4. it is something a maintainer could plausibly commit - an optimisation, a refactor, a new fast path, a
   robustness fix, support for a new case - that **looks right in review** and is wrong only under a narrow,
   realistic condition. Imagine a reviewer who already runs, on every change: dense sweeps of every numeric
   input domain with an independent reference model; every configuration (all matrices, ranges, bit depths
   8..16, transfer curves, primaries, subsamplings, u8/u16); images of many sizes (0x0, 1x1 .. 64x64, odd
   sizes, letterboxed, > 2^24 pixels, > 65536 columns) and paddings/strides/hand-built plane layouts;
   in-domain values surrounded by NaN/inf/out-of-range neighbours; repeated, reordered and interleaved call
   sequences (also 100k+ calls) on one thread, on fresh threads and concurrently from a cold process; by-value
   and by-reference entry points, cloned and refilled images; with and without a logger installed; pinned to
   1, 2, 3 and 16 CPUs; with an allocator that never aligns to 16 bytes; on 128 KiB thread stacks and during
   thread teardown; default, FMA, `--no-default-features` and debug/overflow-checked builds; Miri and
   AddressSanitizer. Find what such a reviewer would still miss.
   Do not delete functionality wholesale, do not make the code panic everywhere. Do not touch
   `#[cfg(test)]` code, tests, benches, or the `verif` module / hook lines (`#[cfg(feature = "verif-hooks")]`).
   Prefer defects with a trigger that real users would hit sooner or later over ones that need a
   one-in-10^10 coincidence of float bits.

Earlier rounds already collected the mutations listed at the end of this file. **Do not repeat them or
close variants** (same mechanism with another constant or in another function counts as a variant).

For each mutation k = 1, 2 write into `{wt}/out/m<k>/`:

* `patch.diff` - output of `git diff` for the source change only (must apply with `git apply` to a clean checkout);
* `demo.rs` - a self-contained integration test file (to be placed at `tests/demo.rs`, or at
  `yuvxyb-math/tests/demo.rs` for math-crate demos run with `cargo test --offline -p yuvxyb-math --test demo`)
  using only the public API and std (the crate's dependencies `v_frame`, `av_data`/`av-data` and `log` may be
  used too); it must FAIL with the patch applied and PASS on the clean tree;
* `meta.json` - {{"property": "{p}", "summary": "...", "needs": "...what is needed to manifest...",
  "why_tests_pass": "...", "demo_cmd": "...exact command...", "demo_fails_with_patch": true,
  "demo_passes_without_patch": true, "suite_passes_with_patch": true}} - booleans only from what you ran.
  If the demo needs special flags (e.g. `--no-default-features`, `RUSTFLAGS="-C target-feature=+fma"`,
  `--features verif-hooks`, `--release`, `cargo +nightly miri test`), say so in demo_cmd and ALSO set a field
  "demo_flags" to one of: "default", "no-default-features", "fma", "release", "verif-hooks",
  "release+verif-hooks", "miri", "math-crate", "math-crate+no-default-features", "math-crate+fma".

Verify everything yourself by actually running the commands. When done, reply with a short summary.

## Mechanisms already collected in earlier rounds for this property (do not repeat)

{chr(10).join(mine)}

## Mechanisms already collected for other properties (also do not repeat)

{OTHER}
"""
    open(f"{wt}/TASK.md", "w").write(task)
    print(wt, len(mine), "earlier mutations listed")
