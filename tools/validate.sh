#!/bin/sh
# tools/validate.sh <tree> <outdir> <tier> <prop>...   run checks against a scratch tree without touching /verif/evidence
tree=$1; out=$2; tier=$3; shift 3
mkdir -p "$out/evidence" "$out/replay"
for p in "$@"; do
  VERIF_REPO="$tree" VERIF_STALL=${VERIF_STALL:-15} VERIF_EVIDENCE_DIR="$out/evidence" VERIF_REPLAY_DIR="$out/replay" /verif/check "$p" "$tier" > "$out/$p.log" 2>&1
  echo "$p exit=$?" >> "$out/summary.txt"
done
