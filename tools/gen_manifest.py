#!/usr/bin/env python3
"""Regenerates MANIFEST.json (kept in the repository; run after changing the claims below)."""
import json, os, subprocess
ROOT = os.path.dirname(os.path.dirname(os.path.abspath(__file__)))
hooks_commit = subprocess.run(["git", "-C", "/repo", "log", "--format=%H", "--grep", "^verif-hooks:", "-n", "1"], stdout=subprocess.PIPE, text=True).stdout.strip()

C = {
 "C01": ("reference-model monitor (f64 H.273 oracle) over exhaustive 8-bit triples + sweeps/lattice/random at 9..16 bit",
         "Runs the real decoder over every 8-bit (Y,U,V) triple for all 14 matrix/range configs in both storage types, and over full per-plane sweeps, clamp-corner lattices and seeded random triples at 9..16 bit, comparing every component with an independent f64 H.273 model at the property's 3e-6. Exhaustive where the space is small; dense sample elsewhere (the map is affine-then-clamp per plane).", "4/C01"),
 "C02": ("reference-model monitor with rounding-boundary-targeted inputs",
         "Encodes RGB in [-0.5,1.5]^3 for all 126 configs and compares each code with the unrounded f64 quantisation; inputs are aimed at k+0.5 rounding boundaries of luma and chroma, the first/last codes, cube corners and ulp neighbours, so the monitor observes values right up to the half-code boundary.", "4/C02"),
 "C03": ("reference-model monitor, exhaustive over all f32 in [0,1] (thorough)",
         "Thorough enumerates every f32 in [0,1] for 14 curves x 2 directions through the public API and compares with f64 models of the defining formulas; quick takes every 251st bit pattern plus dense neighbourhoods of every branch point and power of two. Also checks Linear is the bit-exact identity and aliases are bit-identical.", "4/C03"),
 "C04": ("reference-model monitor (f64 libjxl opsin definition), stratified sampling",
         "Compares Xyb::from(LinearRgb) with the f64 opsin model over 8 strata including near-black, the clamp region (filtered by the property's conditioning clause) and exact corners; sampled continuum.", "4/C04"),
 "C05": ("metamorphic round-trip monitor, stratified sampling", "XYB there-and-back on [0,1]^3 over stratified samples incl. grid, near-black and bit-pattern-uniform floats; image lengths are prime so vector tails are exercised.", "4/C05"),
 "C06": ("reference-model monitor (CIE/Bradford derivation in f64), shuffled call orders",
         "All 11 primaries x 2 directions vs M_out^-1 * Bradford * M_in derived independently (Gauss-Jordan), plus white, there-and-back and bit-exact identity; the 22 conversions run in seed-shuffled orders on one thread so that state leaking between calls is observable.", "4/C06"),
 "C07": ("invariant hooks at every unsafe site + std ub_checks build + Miri (+ASan, valgrind memcheck in thorough) over hostile geometry/call-sequence/float workloads",
         "Complete enumeration of the Plane::new frame family (14M frames), tampered public fields, random conversion walks and hostile floats, observed by (a) hooks that evaluate each unsafe operation's precondition just before it runs, (b) a checked-profile build where std's ub_checks abort on a bad get_unchecked, (c) Miri on a stratified sample, (d) ASan and memcheck in thorough. Verdict covers executed paths only.", "4/C07"),
 "C08": ("metamorphic round-trip monitor, exhaustive at 8 bit", "Decode-then-encode of every 8-bit triple for all 14 configs in both storage types must return the (range-clamped) input exactly; per-plane sweeps, lattice and random triples at 9..16 bit.", "4/C08"),
 "C09": ("metamorphic round-trip monitor over all 17,640 supported configs", "YUV->XYB->YUV for every supported (matrix, transfer, primaries, range, depth) with in-gamut images made by the library's own encoder, 4:4:4 and subsampled block-constant layouts, against the property's code budget.", "4/C09"),
 "C10": ("metamorphic round-trip monitor, exhaustive over all f32 in [0,1] (thorough)", "gamma->linear->gamma for 14 curves over every f32 in [0,1] (thorough) or a strided subset plus branch-point neighbourhoods (quick).", "4/C03"),
 "C11": ("metamorphic monitors: 1x1 vs whole image, re-layout, padding variation, repetition, fresh-thread re-execution",
         "Bit-exact comparison of whole-image conversions with per-pixel 1x1 conversions, with other paddings/strides (U and V padded differently, randomised padding), with repeated runs (also after unrelated conversions and on a fresh thread), for all conversions, 6 subsamplings, sizes up to 64x64.", "4/C11"),
 "C12": ("model-based monitor: the property's predicate vs Yuv::new over the enumerated frame family; exhaustive (len,w,h) for the float constructors",
         "Every frame of the enumerated geometry family is classified by the property's predicate and compared with Yuv::new's verdict and error variant (confusion matrix in the evidence); out-of-range samples at every visible and many padding positions; all (len,w,h) in 0..=40 plus wrap-around products for the four float constructors.", "4/C12"),
 "C13": ("panic/abort monitor + code-range monitor over hostile floats, release and checked builds",
         "All 19,404 supported configs x hostile float images through every conversion in an optimised build (in-process, hooks in Trap mode) and in an overflow/debug-checked build (child processes); every produced Yuv is range-checked and re-wrapped; unit-cube inputs must give finite outputs.", "4/C13"),
 "C14": ("contract monitor over the complete 3276-triple space, several visiting orders", "Exhaustive over every fully specified metadata triple x 10 conversions x {u8,u16}; results judged against independent support tables, symmetry, error equality, independence from unused metadata; repeated in several orders to expose history dependence.", "4/C14"),
 "C15": ("table monitor (own copy of the documented heuristic) + metamorphic label-vs-content monitor", "Yuv::new/Rgb::new resolution compared with the documented table on real frames around every threshold; every config-taking conversion with every Unspecified subset: stored labels must equal the table and decode back to the input within the C09 budget.", "4/C15"),
 "C16": ("invariant monitor over every luma code of every config + anchors of every stage", "Every luma code with neutral chroma for all 126 configs (complete for the code domain), f(0)/f(1) of every curve, 2^20 linear greys through XYB, HSL and every primaries pair.", "4/C16"),
 "C17": ("reference-model monitor (f64 hexcone) + strict range monitor + round trip, stratified sampling", "Hsl::from vs f64 hexcone model, strict range test (NaN counts), round trip, L=0/L=1 anchors over strata that include every sextant, sextant boundaries +-ulps, near-greys and near-black saturated pixels.", "4/C17"),
 "C18": ("reference-model monitor vs f64 libm, exhaustive over all 2^32 arguments for cbrtf/expf (thorough); hook + Miri for totality",
         "cbrtf and expf over all 2^32 bit patterns (thorough) / every 127th plus boundaries (quick); powf over all positive normal x for 17 exponents and random pairs; totality observed by the to_int_unchecked hook in Trap mode and by Miri on the hostile-argument table.", "4/C18"),
 "C19": ("reference-model monitor (naive f64 algebra) over structured + random matrices, f32 and f64 instances, default and FMA builds", "Every public Matrix/RowVector/ColVector operation vs a naive f64 reference over 8 matrix kinds (incl. single-off-diagonal matrices isolating each cofactor, |det| just above 0.5), both instantiations, in the default and the FMA build.", "4/C19"),
 "C20": ("the same monitors re-run in fma / exact-math / exact-math+fma / checked builds + libm probe + cross-build output diff",
         "Rebuilds the harness against the repo with +fma, with --no-default-features and both, re-runs the C01-C06, C08, C10, C18 (and C09, C16, C17, C19) monitors there (exact builds use the 5e-5 curve budget), probes that the math helpers are libm in exact builds, runs the hostile-float workload in checked variants, and diffs every build's outputs on one seeded input set against the default build.", "4/C20"),
}
CONTEXT = (" The same oracle also judges the values in other contexts (section 8.6): images of 1..7 pixels, one image of more than 2^20 (2^24) pixels, letterboxed multi-row images,"
           " in-domain values next to NaN/inf/out-of-range companions, chained and repeated inputs, sequences of configurations on one thread, a light pass in the FMA build (with a Trace-level logger installed)"
           " and in the exact-math build, and a cold-start pass (fresh processes whose first calls are made by 2..16 threads at the same moment).")
checks = []
for pid in sorted(C):
    tech, text, ref = C[pid]
    if pid in ("C01", "C02", "C03", "C04", "C05", "C06", "C08", "C09", "C10", "C16", "C17"):
        text += CONTEXT
        tech += "; context/sequence/cold-start passes; default + FMA + exact-math builds"
    checks.append({
        "property_id": pid,
        "quick_cmd": f"./check {pid} quick",
        "thorough_cmd": f"./check {pid} thorough",
        "evidence_file": f"/verif/evidence/{pid}.json",
        "replay_cmd_template": "./check --replay {path}",
        "engine": "yvmon",
        "technique": "runtime monitoring: " + tech,
        "level_claimed": {"category": "exploration", "text": text, "design_ref": "DESIGN.md section " + ref},
        "level_note": "Held only on the executions produced (this x86-64 host, this rustc); f64 reference models written from the standards are trusted; tolerances are exactly the property's; nothing is proved.",
    })
m = {
    "version": 1,
    "setup_cmd": "./check --setup",
    "hooks": {
        "guard": "cargo feature `verif-hooks` (yuvxyb -> yuvxyb-math/verif-hooks), off by default",
        "enable": "the harness crate depends on yuvxyb and yuvxyb-math with features = [\"verif-hooks\"]; ./check generates its Cargo.toml from harness/Cargo.toml.in pointing at /repo (or $VERIF_REPO)",
        "baseline_off_cmd": "cd /repo && cargo test --workspace --no-fail-fast --offline",
        "source_commits": [hooks_commit],
        "add_only": True,
    },
    "engines": [{"name": "yvmon", "path": "/verif/harness", "serves_properties": sorted(C), "kind_free_text": "Rust monitor binary (reference-model / metamorphic / invariant monitors, child-process protocol for sanitizer and Miri runs) driven by /verif/check"}],
    "checks": checks,
    "not_applicable": [],
    "notes": "All 20 properties are claimed at level 'exploration' (runtime monitoring). Verdicts are three-valued: exit 0 held, 1 VIOLATION, 2 INCONCLUSIVE. Known findings: known_findings.jsonl (all genuine defects found were repaired by fix: commits in /repo and are recorded as 'fixed').",
}
json.dump(m, open(os.path.join(ROOT, "MANIFEST.json"), "w"), indent=1)
print("wrote MANIFEST.json with", len(checks), "checks; hooks commit", hooks_commit)
