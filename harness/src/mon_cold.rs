//! Cold-start pass: the *first* calls of a process, made by several threads at the same moment.
//!
//! Every other workload of a monitor warms the library up within its first millisecond; whatever a
//! conversion initialises lazily (tables, memoised matrices, once-flags) is complete long before the
//! second call. This pass re-executes the harness binary as fresh child processes; in each child N
//! threads prepare their input, meet at a spin barrier and make their first call together. Each
//! thread's result is then compared, bit for bit, with the same call repeated afterwards on the main
//! thread (values as such are judged by the property's main workload). A difference means the result
//! of a conversion depends on what other threads were doing when the process was young.
use crate::ev;
use crate::json::J;
use crate::oracle::*;
use crate::util::*;
use crate::Ctx;
use std::sync::atomic::{AtomicBool, AtomicUsize, Ordering};
use yuvxyb::*;

pub const OPS: [&str; 10] = ["decode", "encode", "roundtrip", "to_linear", "to_gamma", "xyb", "xyb_back", "primaries", "yuv_xyb_yuv", "hsl"];

/// the operation `op` (variant `v`) on the input of thread `i`; returns the bits of the result
pub fn run_op(op: &str, v: u64, i: usize) -> Vec<u32> {
    // threads 0..3 share one input and one configuration, the others have their own input; the configuration is
    // shared by all threads for even variants and differs per thread for odd ones
    let inp = if i < 4 { 0 } else { i as u32 };
    let cv = if v % 2 == 0 { v } else { v + i as u64 };
    let m = MATRICES[(cv % 7) as usize];
    let t = TRANSFERS[(cv % 14) as usize];
    let p = PRIMARIES[((cv / 2) % 10) as usize + usize::from((cv / 2) % 10 >= 7)]; // not ST428
    let full = (cv / 7) % 2 == 1;
    let depth = [8u8, 10, 12, 16][((cv / 3) % 4) as usize];
    let px: Vec<[f32; 3]> = (0..5u32).map(|k| [((k * 37 + inp * 11) % 101) as f32 / 100.0, ((k * 53 + inp * 7 + 13) % 101) as f32 / 100.0, ((k * 71 + inp * 3 + 29) % 101) as f32 / 100.0]).collect();
    let maxc = 1u32 << depth;
    let tri: Vec<[u32; 3]> = (0..5u32).map(|k| [(k * 9973 + inp * 131 + 17) % maxc, (k * 7919 + inp * 97 + 5) % maxc, (k * 6007 + inp * 61 + 3) % maxc]).collect();
    let fbits = |d: &[[f32; 3]]| d.iter().flatten().map(|x| x.to_bits()).collect::<Vec<u32>>();
    let ybits = |y: &Yuv<u16>| (0..3).flat_map(|pl| (0..y.data()[pl].cfg.width).map(move |x| (pl, x))).map(|(pl, x)| y.data()[pl].p(x, 0) as u32).collect::<Vec<u32>>();
    let cfg = cfg_full(m, t, p, full, depth, (0, 0));
    let fail = || vec![0xDEAD_BEEF];
    match op {
        "decode" => Rgb::try_from(&mk_yuv::<u16>(&tri, cfg)).map(|r| fbits(r.data())).unwrap_or_else(|_| fail()),
        "encode" => Yuv::<u16>::try_from((&Rgb::new(px, 5, 1, t, p).unwrap(), cfg)).map(|y| ybits(&y)).unwrap_or_else(|_| fail()),
        "roundtrip" => Rgb::try_from(&mk_yuv::<u16>(&tri, cfg)).ok().and_then(|r| Yuv::<u16>::try_from((&r, cfg)).ok()).map(|y| ybits(&y)).unwrap_or_else(fail),
        "to_linear" => lin_of(t, px).map(|d| fbits(&d)).unwrap_or_else(|_| fail()),
        "to_gamma" => gam_of(t, px).map(|d| fbits(&d)).unwrap_or_else(|_| fail()),
        "xyb" => fbits(Xyb::from(LinearRgb::new(px, 5, 1).unwrap()).data()),
        "xyb_back" => fbits(LinearRgb::from(Xyb::from(LinearRgb::new(px, 5, 1).unwrap())).data()),
        "primaries" => {
            if v % 4 < 2 {
                LinearRgb::try_from(Rgb::new(px, 5, 1, TC::Linear, p).unwrap()).map(|l| fbits(l.data())).unwrap_or_else(|_| fail())
            } else {
                Rgb::try_from((LinearRgb::new(px, 5, 1).unwrap(), TC::Linear, p)).map(|r| fbits(r.data())).unwrap_or_else(|_| fail())
            }
        }
        "yuv_xyb_yuv" => Xyb::try_from(&mk_yuv::<u16>(&tri, cfg)).ok().and_then(|x| Yuv::<u16>::try_from((x, cfg)).ok()).map(|y| ybits(&y)).unwrap_or_else(fail),
        _ => fbits(LinearRgb::from(Hsl::from(LinearRgb::new(px.clone(), 5, 1).unwrap())).data()).into_iter().chain(fbits(Hsl::from(LinearRgb::new(px, 5, 1).unwrap()).data())).collect(),
    }
}

/// child process: `yvmon COLDCHILD --op X --variant V --threads N`; prints one line and exits
pub fn child(ctx: &Ctx) -> ! {
    let op = ctx.arg("op").unwrap_or("xyb").to_string();
    let v = ctx.arg_u64("variant").unwrap_or(0);
    let nt = (ctx.arg_u64("threads").unwrap_or(8) as usize).clamp(2, 160);
    let ready = AtomicUsize::new(0);
    let go = AtomicBool::new(false);
    let outs: Vec<Vec<u32>> = std::thread::scope(|s| {
        let hs: Vec<_> = (0..nt)
            .map(|i| {
                let (ready, go, op) = (&ready, &go, &op);
                s.spawn(move || {
                    ready.fetch_add(1, Ordering::AcqRel);
                    while !go.load(Ordering::Acquire) {
                        if nt > 16 {
                            std::thread::yield_now(); // more threads than CPUs: do not starve the ones still starting
                        } else {
                            std::hint::spin_loop();
                        }
                    }
                    // the first call, then the same call again while the other threads are still busy: every repetition
                    // must give the bits of the first
                    let first = run_op(op, v, i);
                    if nt >= 64 {
                        // more threads than CPUs: keep every thread busy for 30 ms, so that all of them are alive at once
                        // and are preempted at arbitrary points of a call
                        let t0 = std::time::Instant::now();
                        while t0.elapsed().as_millis() < 30 {
                            for _ in 0..16 {
                                if run_op(op, v, i) != first {
                                    return vec![0x0D1F_F000];
                                }
                            }
                        }
                    } else {
                        for _ in 0..4 {
                            if run_op(op, v, i) != first {
                                return vec![0x0D1F_F000];
                            }
                        }
                    }
                    first
                })
            })
            .collect();
        while ready.load(Ordering::Acquire) < nt {
            std::thread::yield_now();
        }
        go.store(true, Ordering::Release);
        hs.into_iter().map(|h| h.join().unwrap_or_else(|_| vec![0xBAD_0BAD])).collect()
    });
    // the same calls again, one after another, now that the process is warm
    let mut diffs = Vec::new();
    for (i, o) in outs.iter().enumerate() {
        let again = run_op(&op, v, i);
        if *o != again {
            let k = o.iter().zip(again.iter()).position(|(a, b)| a != b).unwrap_or(0);
            diffs.push(format!("thread {i}: word {k} was {:#010x} in the concurrent first call, {:#010x} when repeated", o.get(k).copied().unwrap_or(0), again.get(k).copied().unwrap_or(0)));
        }
    }
    if diffs.is_empty() {
        println!("COLD OK {nt}");
    } else {
        println!("COLD DIFF {nt} {}", diffs.join("; "));
    }
    std::process::exit(0);
}

/// parent: `yvmon COLD --prop Cxx --ops a,b,c [--runs N]`
pub fn cold(ctx: &Ctx) {
    let prop = ctx.arg("prop").unwrap_or("C11").to_string();
    let ops: Vec<String> = ctx.arg("ops").unwrap_or("xyb").split(',').map(str::to_string).collect();
    let runs = ctx.arg_u64("runs").unwrap_or(ctx.pick(96, 1000));
    let exe = std::env::current_exe().expect("own path");
    let (mut procs, mut calls, mut failed) = (0u64, 0u64, 0u64);
    for op in &ops {
        let mut first_diff: Option<(u64, usize, String)> = None;
        let mut ndiff = 0u64;
        for r in 0..runs {
            // (96: more threads alive at once than any small fixed table of per-thread slots would hold)
            let nt = [16usize, 8, 4, 2, 16, 12, 96, 3][((r / 2) % 8) as usize]; // every thread count with an even and an odd variant
            let variant = ctx.seed * 1000 + r;
            let out = std::process::Command::new(&exe).args(["COLDCHILD", "--op", op, "--variant", &variant.to_string(), "--threads", &nt.to_string()]).output();
            procs += 1;
            match out {
                Ok(o) => {
                    let text = String::from_utf8_lossy(&o.stdout);
                    if let Some(l) = text.lines().find(|l| l.starts_with("COLD OK")) {
                        let _ = l;
                        calls += nt as u64;
                    } else if let Some(l) = text.lines().find(|l| l.starts_with("COLD DIFF")) {
                        calls += nt as u64;
                        ndiff += 1;
                        if first_diff.is_none() {
                            first_diff = Some((variant, nt, l.to_string()));
                        }
                    } else {
                        failed += 1;
                    }
                }
                Err(_) => failed += 1,
            }
        }
        if let Some((variant, nt, l)) = first_diff {
            ev::violation(
                format!("{prop}|cold-start-concurrent|{op}"),
                format!("in {ndiff} of {runs} fresh processes, the first '{op}' calls made by {nt} threads at the same moment differ from the same calls repeated afterwards: {l}"),
                J::obj().set("kind", "cold-start").set("op", op.as_str()).set("variant", variant).set("threads", nt),
            );
        }
    }
    ev::observe("cold_start_processes", procs);
    ev::observe("cold_start_concurrent_first_calls_compared", calls);
    ev::observe("cold_start_ops", J::Arr(ops.iter().map(|s| J::from(s.as_str())).collect()));
    if failed > 0 {
        ev::observe("cold_start_children_without_result", failed);
        if failed == procs {
            ev::inconclusive("no cold-start child process produced a result");
        }
    }
    ev::add_evals(calls);
    ev::add_nontrivial(calls);
    ev::rule("cold start: fresh child processes in which 2..96 threads make their first call of one conversion at the same moment (spin barrier); each result compared bit for bit with the same call repeated afterwards on the main thread");
}

pub fn replay(case: &J) -> bool {
    if case.get("kind").and_then(J::as_str) != Some("cold-start") {
        return false;
    }
    let (Some(op), Some(variant), Some(nt)) = (case.get("op").and_then(J::as_str), case.get("variant").and_then(J::as_u64), case.get("threads").and_then(J::as_u64)) else { return false };
    let exe = std::env::current_exe().expect("own path");
    let mut ndiff = 0u64;
    let mut last = String::new();
    for _ in 0..50 {
        if let Ok(o) = std::process::Command::new(&exe).args(["COLDCHILD", "--op", op, "--variant", &variant.to_string(), "--threads", &nt.to_string()]).output() {
            let text = String::from_utf8_lossy(&o.stdout).to_string();
            if let Some(l) = text.lines().find(|l| l.starts_with("COLD DIFF")) {
                ndiff += 1;
                last = l.to_string();
            }
        }
    }
    ev::add_evals(50 * nt);
    ev::observe("replay", J::obj().set("processes", 50).set("processes_with_a_difference", ndiff).set("last", last.as_str()));
    if ndiff > 0 {
        ev::violation("cold-start|replay", format!("{ndiff} of 50 fresh processes: {last}"), case.clone());
    }
    true
}
