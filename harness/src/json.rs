//! Minimal JSON value + writer + parser (no external crates available offline
//! beyond the repo's own dependency closure).
use std::collections::BTreeMap;
use std::fmt::Write;

#[derive(Clone, Debug, PartialEq)]
pub enum J {
    Null,
    Bool(bool),
    Int(i128),
    Num(f64),
    Str(String),
    Arr(Vec<J>),
    Obj(BTreeMap<String, J>),
}

impl J {
    pub fn obj() -> J {
        J::Obj(BTreeMap::new())
    }
    pub fn set(mut self, k: &str, v: impl Into<J>) -> J {
        if let J::Obj(m) = &mut self {
            m.insert(k.to_string(), v.into());
        }
        self
    }
    pub fn put(&mut self, k: &str, v: impl Into<J>) {
        if let J::Obj(m) = self {
            m.insert(k.to_string(), v.into());
        }
    }
    pub fn get(&self, k: &str) -> Option<&J> {
        match self {
            J::Obj(m) => m.get(k),
            _ => None,
        }
    }
    pub fn as_str(&self) -> Option<&str> {
        match self {
            J::Str(s) => Some(s),
            _ => None,
        }
    }
    pub fn as_u64(&self) -> Option<u64> {
        match self {
            J::Int(i) => u64::try_from(*i).ok(),
            J::Num(f) if *f >= 0.0 && f.fract() == 0.0 => Some(*f as u64),
            _ => None,
        }
    }
    pub fn as_i64(&self) -> Option<i64> {
        match self {
            J::Int(i) => i64::try_from(*i).ok(),
            _ => None,
        }
    }
    pub fn as_f64(&self) -> Option<f64> {
        match self {
            J::Int(i) => Some(*i as f64),
            J::Num(f) => Some(*f),
            _ => None,
        }
    }
    pub fn as_arr(&self) -> Option<&Vec<J>> {
        match self {
            J::Arr(a) => Some(a),
            _ => None,
        }
    }
    pub fn as_bool(&self) -> Option<bool> {
        match self {
            J::Bool(b) => Some(*b),
            _ => None,
        }
    }

    pub fn write(&self, out: &mut String) {
        match self {
            J::Null => out.push_str("null"),
            J::Bool(b) => out.push_str(if *b { "true" } else { "false" }),
            J::Int(i) => {
                let _ = write!(out, "{i}");
            }
            J::Num(f) => {
                if f.is_finite() {
                    let _ = write!(out, "{f:e}");
                } else {
                    // JSON has no NaN/inf: encode as string
                    let _ = write!(out, "\"{f}\"");
                }
            }
            J::Str(s) => write_str(out, s),
            J::Arr(a) => {
                out.push('[');
                for (i, v) in a.iter().enumerate() {
                    if i > 0 {
                        out.push(',');
                    }
                    v.write(out);
                }
                out.push(']');
            }
            J::Obj(m) => {
                out.push('{');
                for (i, (k, v)) in m.iter().enumerate() {
                    if i > 0 {
                        out.push(',');
                    }
                    write_str(out, k);
                    out.push(':');
                    v.write(out);
                }
                out.push('}');
            }
        }
    }
    pub fn to_string(&self) -> String {
        let mut s = String::new();
        self.write(&mut s);
        s
    }
}

fn write_str(out: &mut String, s: &str) {
    out.push('"');
    for c in s.chars() {
        match c {
            '"' => out.push_str("\\\""),
            '\\' => out.push_str("\\\\"),
            '\n' => out.push_str("\\n"),
            '\r' => out.push_str("\\r"),
            '\t' => out.push_str("\\t"),
            c if (c as u32) < 0x20 => {
                let _ = write!(out, "\\u{:04x}", c as u32);
            }
            c => out.push(c),
        }
    }
    out.push('"');
}

macro_rules! from_int {
    ($($t:ty),*) => {$(impl From<$t> for J { fn from(v: $t) -> J { J::Int(v as i128) } })*};
}
from_int!(u8, u16, u32, u64, usize, i8, i16, i32, i64, isize);
impl From<f64> for J {
    fn from(v: f64) -> J {
        J::Num(v)
    }
}
impl From<f32> for J {
    fn from(v: f32) -> J {
        J::Num(v as f64)
    }
}
impl From<bool> for J {
    fn from(v: bool) -> J {
        J::Bool(v)
    }
}
impl From<&str> for J {
    fn from(v: &str) -> J {
        J::Str(v.to_string())
    }
}
impl From<String> for J {
    fn from(v: String) -> J {
        J::Str(v)
    }
}
impl<T: Into<J>> From<Vec<T>> for J {
    fn from(v: Vec<T>) -> J {
        J::Arr(v.into_iter().map(Into::into).collect())
    }
}
impl<T: Into<J> + Copy, const N: usize> From<[T; N]> for J {
    fn from(v: [T; N]) -> J {
        J::Arr(v.iter().map(|x| (*x).into()).collect())
    }
}
impl<T: Into<J>> From<Option<T>> for J {
    fn from(v: Option<T>) -> J {
        v.map_or(J::Null, Into::into)
    }
}

// ---------------------------------------------------------------- parser
pub fn parse(s: &str) -> Result<J, String> {
    let b = s.as_bytes();
    let mut p = 0usize;
    let v = val(b, &mut p)?;
    ws(b, &mut p);
    if p != b.len() {
        return Err(format!("trailing data at {p}"));
    }
    Ok(v)
}
fn ws(b: &[u8], p: &mut usize) {
    while *p < b.len() && (b[*p] as char).is_ascii_whitespace() {
        *p += 1;
    }
}
fn val(b: &[u8], p: &mut usize) -> Result<J, String> {
    ws(b, p);
    if *p >= b.len() {
        return Err("eof".into());
    }
    match b[*p] {
        b'{' => {
            *p += 1;
            let mut m = BTreeMap::new();
            ws(b, p);
            if *p < b.len() && b[*p] == b'}' {
                *p += 1;
                return Ok(J::Obj(m));
            }
            loop {
                ws(b, p);
                let k = match val(b, p)? {
                    J::Str(s) => s,
                    _ => return Err("key".into()),
                };
                ws(b, p);
                if *p >= b.len() || b[*p] != b':' {
                    return Err("colon".into());
                }
                *p += 1;
                let v = val(b, p)?;
                m.insert(k, v);
                ws(b, p);
                if *p < b.len() && b[*p] == b',' {
                    *p += 1;
                    continue;
                }
                if *p < b.len() && b[*p] == b'}' {
                    *p += 1;
                    return Ok(J::Obj(m));
                }
                return Err(format!("obj at {p}"));
            }
        }
        b'[' => {
            *p += 1;
            let mut a = Vec::new();
            ws(b, p);
            if *p < b.len() && b[*p] == b']' {
                *p += 1;
                return Ok(J::Arr(a));
            }
            loop {
                a.push(val(b, p)?);
                ws(b, p);
                if *p < b.len() && b[*p] == b',' {
                    *p += 1;
                    continue;
                }
                if *p < b.len() && b[*p] == b']' {
                    *p += 1;
                    return Ok(J::Arr(a));
                }
                return Err(format!("arr at {p}"));
            }
        }
        b'"' => {
            *p += 1;
            let mut s = String::new();
            while *p < b.len() {
                let c = b[*p];
                *p += 1;
                match c {
                    b'"' => return Ok(J::Str(s)),
                    b'\\' => {
                        let e = b[*p];
                        *p += 1;
                        match e {
                            b'n' => s.push('\n'),
                            b't' => s.push('\t'),
                            b'r' => s.push('\r'),
                            b'u' => {
                                let h = std::str::from_utf8(&b[*p..*p + 4]).map_err(|e| e.to_string())?;
                                let cp = u32::from_str_radix(h, 16).map_err(|e| e.to_string())?;
                                s.push(char::from_u32(cp).unwrap_or('?'));
                                *p += 4;
                            }
                            o => s.push(o as char),
                        }
                    }
                    _ => {
                        // copy raw utf8 byte run
                        let start = *p - 1;
                        while *p < b.len() && b[*p] != b'"' && b[*p] != b'\\' {
                            *p += 1;
                        }
                        s.push_str(std::str::from_utf8(&b[start..*p]).map_err(|e| e.to_string())?);
                    }
                }
            }
            Err("unterminated string".into())
        }
        b't' if b[*p..].starts_with(b"true") => {
            *p += 4;
            Ok(J::Bool(true))
        }
        b'f' if b[*p..].starts_with(b"false") => {
            *p += 5;
            Ok(J::Bool(false))
        }
        b'n' if b[*p..].starts_with(b"null") => {
            *p += 4;
            Ok(J::Null)
        }
        _ => {
            let start = *p;
            while *p < b.len() && matches!(b[*p], b'-' | b'+' | b'.' | b'e' | b'E' | b'0'..=b'9') {
                *p += 1;
            }
            let t = std::str::from_utf8(&b[start..*p]).map_err(|e| e.to_string())?;
            if let Ok(i) = t.parse::<i128>() {
                Ok(J::Int(i))
            } else {
                t.parse::<f64>().map(J::Num).map_err(|e| format!("num {t}: {e}"))
            }
        }
    }
}
