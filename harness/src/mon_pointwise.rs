//! C11: conversions are pointwise, order-preserving, layout-independent, non-mutating and repeatable.
use crate::ev;
use crate::gen::Rng;
use crate::json::J;
use crate::oracle::{MATRICES, PRIMARIES, TRANSFERS};
use crate::util::*;
use crate::{Ctx, Tier};
use std::collections::BTreeMap;
use std::sync::atomic::{AtomicU64, Ordering::Relaxed};
use std::sync::Mutex;
use yuvxyb::*;

const SS: [(u8, u8); 6] = [(0, 0), (1, 0), (1, 1), (0, 1), (2, 0), (2, 2)];
/// padding triples (Y, U, V): equal and unequal, so that U and V get different strides and origins
/// per-plane paddings; an entry p pads both axes by p, 100+k pads x only by k, 200+k pads y only by k (frames::xypad)
const PADS: [(usize, usize, usize); 11] = [(0, 0, 0), (3, 3, 3), (32, 32, 32), (0, 0, 17), (0, 17, 0), (17, 0, 33), (1, 32, 7), (108, 108, 108), (208, 208, 208), (101, 200, 132), (132, 101, 208)];

fn bits_eq(a: &[[f32; 3]], b: &[[f32; 3]]) -> Option<usize> {
    if a.len() != b.len() {
        return Some(usize::MAX);
    }
    (0..a.len()).find(|&i| (0..3).any(|c| a[i][c].to_bits() != b[i][c].to_bits()))
}

/// matrices that decode successfully, including the ones derived from primaries
const DERIVED: [MC; 5] = [MC::Identity, MC::BT2020ConstantLuminance, MC::ChromaticityDerivedConstantLuminance, MC::ST2085, MC::ICtCp];

fn pick_cfg(i: u64, depth: u8, ss: (u8, u8)) -> YuvConfig {
    // walk through configurations so that consecutive images on one thread share the matrix but not the primaries,
    // or the transfer but not the matrix, etc.
    let prims: Vec<CP> = PRIMARIES.iter().copied().filter(|p| *p != CP::ST428).collect();
    let m = if i % 3 == 0 { DERIVED[((i / 6) % 5) as usize] } else { MATRICES[((i / 5) % 7) as usize] };
    let p = prims[(i % prims.len() as u64) as usize];
    let t = TRANSFERS[((i / 2) % 14) as usize];
    cfg_full(m, t, p, i % 2 == 0, depth, ss)
}

struct Img<T: Pixel> {
    w: usize,
    h: usize,
    ss: (u8, u8),
    /// visible samples per plane, row-major
    planes: [Vec<u32>; 3],
    _t: std::marker::PhantomData<T>,
}

fn build_yuv<T: Pixel>(img: &Img<T>, pad: (usize, usize, usize), junk: &mut Rng, cfg: YuvConfig) -> Yuv<T> {
    let (cw, ch) = (img.w >> img.ss.0, img.h >> img.ss.1);
    let (sx, sy) = (img.ss.0 as usize, img.ss.1 as usize);
    let mut f: Frame<T> = Frame {
        planes: [
            Plane::new(img.w, img.h, 0, 0, crate::frames::xypad(pad.0).0, crate::frames::xypad(pad.0).1),
            Plane::new(cw, ch, sx, sy, crate::frames::xypad(pad.1).0, crate::frames::xypad(pad.1).1),
            Plane::new(cw, ch, sx, sy, crate::frames::xypad(pad.2).0, crate::frames::xypad(pad.2).1),
        ],
    };
    let maxv = if std::mem::size_of::<T>() == 1 { 255 } else { (1u64 << cfg.bit_depth) - 1 };
    // padding contents must not matter: junk from the whole range of the storage type (for u16 below 16 bit that
    // includes values no visible sample may have), then the visible samples are written
    let junk_max = if std::mem::size_of::<T>() == 1 { 255 } else { 65535 };
    for p in 0..3 {
        for v in f.planes[p].data.iter_mut() {
            *v = T::cast_from(junk.below(junk_max + 1) as u32);
        }
        let (pw, ph) = if p == 0 { (img.w, img.h) } else { (cw, ch) };
        let stride = f.planes[p].cfg.stride;
        let d = f.planes[p].data_origin_mut();
        for y in 0..ph {
            for x in 0..pw {
                d[y * stride + x] = T::cast_from(img.planes[p][y * pw + x]);
            }
        }
    }
    match Yuv::new(f, cfg) {
        Ok(y) => y,
        Err(e) => {
            // (padding contents and per-plane paddings are the only things that vary here)
            viol("well-formed-frame-rejected", format!("Yuv::new returned {e:?} for a well-formed {}x{} frame with paddings {pad:?} and arbitrary padding contents", img.w, img.h), J::obj().set("kind", "rejected").set("w", img.w).set("h", img.h).set("pad", [pad.0, pad.1, pad.2]));
            panic!("well-formed frame rejected: {e:?}")
        }
    }
}

struct Counters {
    images: AtomicU64,
    pixel_checks: AtomicU64,
    layout_checks: AtomicU64,
    chroma_checks: AtomicU64,
    fresh_thread_checks: AtomicU64,
}

fn viol(kind: &str, what: String, case: J) {
    ev::violation(format!("C11|{kind}"), what, case);
}

fn case_yuv(w: usize, h: usize, ss: (u8, u8), cfg: &YuvConfig, u8s: bool, seed: u64, idx: u64) -> J {
    J::obj().set("kind", "c11-yuv").set("w", w).set("h", h).set("ss", [ss.0, ss.1]).set("cfg", cfg_json(cfg)).set("u8", u8s).set("seed", seed).set("index", idx)
}

/// which pixels get an individual 1x1 comparison
fn probe_pixels(w: usize, h: usize, rng: &mut Rng) -> Vec<(usize, usize)> {
    if w * h <= 64 {
        return (0..h).flat_map(|y| (0..w).map(move |x| (x, y))).collect();
    }
    let mut v = vec![(0, 0), (w - 1, 0), (0, h - 1), (w - 1, h - 1), (w / 2, h / 2)];
    // the last pixels in row-major order (vectorised tails) and the row ends
    for k in 0..9.min(w * h) {
        let i = w * h - 1 - k;
        v.push((i % w, i / w));
    }
    for _ in 0..24 {
        v.push((rng.below(w as u64) as usize, rng.below(h as u64) as usize));
    }
    v
}

fn yuv_source_checks<T: Pixel>(ctx: &Ctx, idx: u64, w: usize, h: usize, ss: (u8, u8), depth: u8, cnt: &Counters, hist: &mut BTreeMap<(u8, u8, usize, usize), u64>) {
    let u8s = std::mem::size_of::<T>() == 1;
    let mut rng = Rng::new(ctx.seed, 0x0C11_0000 + idx);
    let cfg = pick_cfg(idx, depth, ss);
    let (cw, ch) = (w >> ss.0, h >> ss.1);
    let maxv = if u8s { 255u64 } else { (1u64 << depth) - 1 };
    // unique value per pixel where the code space allows it (offset so that neighbours differ in all planes)
    let uniq = |n: usize, salt: u64| -> Vec<u32> {
        let base = crate::gen::hash64(idx ^ salt) % (maxv + 1);
        (0..n).map(|i| ((base + (i as u64) * 7919) % (maxv + 1)) as u32).collect()
    };
    let mut img: Img<T> = Img { w, h, ss, planes: [uniq(w * h, 1), uniq(cw * ch, 2), uniq(cw * ch, 3)], _t: std::marker::PhantomData };
    if idx % 4 == 1 && ch >= 3 {
        // letterbox: chroma row 1 entirely neutral and its luma rows at (or, every other pixel, one below) nominal black
        let mid = 1u32 << (cfg.bit_depth - 1);
        let black = if cfg.full_range { 0 } else { 16u32 << (cfg.bit_depth - 8) };
        for x in 0..cw {
            img.planes[1][cw + x] = mid;
            img.planes[2][cw + x] = mid;
        }
        for y in (1usize << ss.1)..(2usize << ss.1) {
            for x in 0..w {
                img.planes[0][y * w + x] = black.saturating_sub((x % 2) as u32);
            }
        }
    }
    let case = || case_yuv(w, h, ss, &cfg, u8s, ctx.seed, idx);
    let mut junk = rng.clone();
    let y0 = build_yuv(&img, PADS[0], &mut junk, cfg);
    let keep = y0.clone();
    // first a conversion with the same matrix value but other primaries / transfer on this thread, in both directions:
    // whatever it leaves behind must not leak into the conversions checked below (they are compared with a fresh thread)
    {
        let prime = pick_cfg(idx + 7, depth, (0, 0));
        let prime = YuvConfig { matrix_coefficients: cfg.matrix_coefficients, ..prime };
        let small: Img<T> = Img { w: 2, h: 1, ss: (0, 0), planes: [vec![40, 180], vec![100, 30], vec![150, 220]], _t: std::marker::PhantomData };
        if let Ok(r) = Rgb::try_from(&build_yuv(&small, PADS[0], &mut junk, prime)) {
            let _ = Yuv::<T>::try_from((&r, prime));
        }
    }
    let rgb = match Rgb::try_from(&y0) {
        Ok(r) => r,
        Err(e) => {
            viol("decode-error", format!("{e:?} for {cfg:?}"), case());
            return;
        }
    };
    cnt.images.fetch_add(1, Relaxed);
    if rgb.width() != w || rgb.height() != h || rgb.data().len() != w * h {
        viol("dims|Rgb::try_from(&Yuv)", format!("{w}x{h} in, {}x{} ({} px) out", rgb.width(), rgb.height(), rgb.data().len()), case());
        return;
    }
    // borrowed source untouched
    if (0..3).any(|p| y0.data()[p] != keep.data()[p]) || y0.config() != keep.config() {
        viol("source-mutated|&Yuv", "the borrowed Yuv changed during Rgb::try_from(&yuv)".into(), case());
    }
    // repeat
    let rgb2 = Rgb::try_from(&y0).unwrap();
    if bits_eq(rgb.data(), rgb2.data()).is_some() {
        viol("not-repeatable|Rgb::try_from(&Yuv)", "two decodes of the same image differ".into(), case());
    }
    // repeat after an unrelated conversion with a neighbouring configuration (same matrix, other primaries/transfer)
    {
        let other = pick_cfg(idx + 1, depth, (0, 0));
        let other = YuvConfig { matrix_coefficients: cfg.matrix_coefficients, ..other };
        let small: Img<T> = Img { w: 2, h: 1, ss: (0, 0), planes: [vec![17, 200], vec![90, 33], vec![140, 250]], _t: std::marker::PhantomData };
        let _ = Xyb::try_from(&build_yuv(&small, PADS[0], &mut junk, other));
        let rgb3 = Rgb::try_from(&y0).unwrap();
        if let Some(i) = bits_eq(rgb.data(), rgb3.data()) {
            viol(
                "history-dependent|Rgb::try_from(&Yuv)",
                format!("decoding the same image again after converting another image with {other:?} changed pixel {i}"),
                case().set("other_cfg", cfg_json(&other)),
            );
        }
    }
    // the same computation on a fresh thread (no thread-local state) must agree
    if idx % 4 == 0 || DERIVED.contains(&cfg.matrix_coefficients) {
        let fresh = std::thread::scope(|s| s.spawn(|| Rgb::try_from(&y0).map(|r| r.into_data())).join());
        cnt.fresh_thread_checks.fetch_add(1, Relaxed);
        if let Ok(Ok(fr)) = fresh {
            if let Some(i) = bits_eq(rgb.data(), &fr) {
                viol("history-dependent|fresh-thread", format!("a fresh thread decodes pixel {i} differently from a thread that has already converted other images"), case());
            }
        }
    }
    // layout independence: other paddings (incl. U and V padded differently), randomised padding contents
    for pad in PADS.iter().skip(1) {
        let y1 = build_yuv(&img, *pad, &mut junk, cfg);
        let r1 = Rgb::try_from(&y1).unwrap();
        cnt.layout_checks.fetch_add(1, Relaxed);
        if let Some(i) = bits_eq(rgb.data(), r1.data()) {
            viol(
                "layout-dependent|decode",
                format!("padding {pad:?} (strides {:?}) changes decoded pixel {} of a {w}x{h} image", [y1.data()[0].cfg.stride, y1.data()[1].cfg.stride, y1.data()[2].cfg.stride], i),
                case().set("pad", [pad.0, pad.1, pad.2]),
            );
            break;
        }
    }
    // 4:4:4: the same samples in reversed raster order must decode to the reversed image
    if ss == (0, 0) {
        let rimg: Img<T> = Img {
            w,
            h,
            ss,
            planes: [img.planes[0].iter().rev().copied().collect(), img.planes[1].iter().rev().copied().collect(), img.planes[2].iter().rev().copied().collect()],
            _t: std::marker::PhantomData,
        };
        if let Ok(rr) = Rgb::try_from(&build_yuv(&rimg, PADS[(idx % 11) as usize], &mut junk, cfg)) {
            cnt.layout_checks.fetch_add(1, Relaxed);
            let n = w * h;
            if let Some(i) = (0..n).find(|&i| (0..3).any(|c| rr.data()[n - 1 - i][c].to_bits() != rgb.data()[i][c].to_bits())) {
                viol("position-dependent|Rgb::try_from(&Yuv)", format!("pixel {i} of the {w}x{h} image decodes differently when the raster order is reversed"), case());
            }
        }
    }
    // pointwise: pixel (x,y) equals the decode of the 1x1 4:4:4 image (Y(x,y), U(x>>ssx,y>>ssy), V(..))
    let cfg1 = YuvConfig { subsampling_x: 0, subsampling_y: 0, ..cfg };
    let lin = LinearRgb::try_from(&y0);
    let xyb = Xyb::try_from(&y0);
    for (x, y) in probe_pixels(w, h, &mut rng) {
        let t = [img.planes[0][y * w + x], img.planes[1][(y >> ss.1) * cw + (x >> ss.0)], img.planes[2][(y >> ss.1) * cw + (x >> ss.0)]];
        let one: Yuv<T> = mk_yuv(&[t], cfg1);
        cnt.pixel_checks.fetch_add(1, Relaxed);
        let r1 = Rgb::try_from(&one).unwrap();
        if bits_eq(&rgb.data()[y * w + x..y * w + x + 1], r1.data()).is_some() {
            viol(
                "not-pointwise|Rgb::try_from(&Yuv)",
                format!("pixel ({x},{y}) of the {w}x{h} image decodes to {:?}, its 1x1 image {t:?} to {:?}", rgb.data()[y * w + x], r1.data()[0]),
                case().set("x", x).set("y", y),
            );
            break;
        }
        if let (Ok(l), Ok(l1)) = (&lin, LinearRgb::try_from(&one)) {
            if bits_eq(&l.data()[y * w + x..y * w + x + 1], l1.data()).is_some() {
                viol("not-pointwise|LinearRgb::try_from(&Yuv)", format!("pixel ({x},{y}) of {w}x{h}: {:?} vs 1x1 {:?}", l.data()[y * w + x], l1.data()[0]), case().set("x", x).set("y", y));
                break;
            }
        }
        if let (Ok(xx), Ok(x1)) = (&xyb, Xyb::try_from(&one)) {
            if bits_eq(&xx.data()[y * w + x..y * w + x + 1], x1.data()).is_some() {
                viol("not-pointwise|Xyb::try_from(&Yuv)", format!("pixel ({x},{y}) of {w}x{h}: {:?} vs 1x1 {:?}", xx.data()[y * w + x], x1.data()[0]), case().set("x", x).set("y", y));
                break;
            }
        }
    }
    // the consuming impls (TryFrom<Yuv<T>>) must agree with the borrowing ones bit for bit
    {
        let o_rgb = Rgb::try_from(y0.clone());
        let o_lin = LinearRgb::try_from(y0.clone());
        let o_xyb = Xyb::try_from(y0.clone());
        let same = |a: Option<&[[f32; 3]]>, b: Option<&[[f32; 3]]>| match (a, b) {
            (Some(a), Some(b)) => bits_eq(a, b).is_none(),
            (None, None) => true,
            _ => false,
        };
        if !same(Some(rgb.data()), o_rgb.as_ref().ok().map(|r| r.data())) {
            viol("owned-vs-borrowed|Rgb::try_from(Yuv)", format!("Rgb::try_from(yuv) and Rgb::try_from(&yuv) differ for a {w}x{h} image"), case());
        }
        if !same(lin.as_ref().ok().map(|r| r.data()), o_lin.as_ref().ok().map(|r| r.data())) {
            viol("owned-vs-borrowed|LinearRgb::try_from(Yuv)", format!("LinearRgb::try_from(yuv) and LinearRgb::try_from(&yuv) differ for a {w}x{h} image"), case());
        }
        if !same(xyb.as_ref().ok().map(|r| r.data()), o_xyb.as_ref().ok().map(|r| r.data())) {
            viol("owned-vs-borrowed|Xyb::try_from(Yuv)", format!("Xyb::try_from(yuv) and Xyb::try_from(&yuv) differ for a {w}x{h} image"), case());
        }
    }
    if let Ok(l) = &lin {
        if l.width() != w || l.height() != h {
            viol("dims|LinearRgb::try_from(&Yuv)", format!("{}x{}", l.width(), l.height()), case());
        }
    }
    if let Ok(xx) = &xyb {
        if xx.width() != w || xx.height() != h {
            viol("dims|Xyb::try_from(&Yuv)", format!("{}x{}", xx.width(), xx.height()), case());
        }
    }

    // ---- encoding: subsampled vs 4:4:4
    if !matches!(cfg.matrix_coefficients, MC::Identity | MC::BT2020ConstantLuminance | MC::ChromaticityDerivedConstantLuminance | MC::ST2085 | MC::ICtCp) || true {
        let mut px: Vec<[f32; 3]> = (0..w * h).map(|_| [rng.unit() as f32, rng.unit() as f32, rng.unit() as f32]).collect();
        // the first and the last pixel are faintly tinted greys (both are always probed against their 1x1 image):
        // what the rest of the image contains must not change how they are encoded
        if w * h >= 2 {
            let g = rng.range(0.2, 0.8);
            let t = 10f64.powf(-4.0 - 2.0 * rng.unit());
            px[0] = [g as f32, (g + t) as f32, (g - t) as f32];
            let last = w * h - 1;
            px[last] = [(g + t) as f32, g as f32, g as f32];
        }
        let r = Rgb::new(px.clone(), w, h, cfg.transfer_characteristics, cfg.color_primaries).unwrap();
        let keep = r.clone();
        let sub: Result<Yuv<T>, _> = Yuv::try_from((&r, cfg));
        let full: Result<Yuv<T>, _> = Yuv::try_from((&r, cfg1));
        if bits_eq(r.data(), keep.data()).is_some() || r.width() != keep.width() || r.transfer() != keep.transfer() || r.primaries() != keep.primaries() {
            viol("source-mutated|&Rgb", "the borrowed Rgb changed during Yuv::try_from((&rgb,cfg))".into(), case());
        }
        // the encoder must not depend on what was converted before it either
        if let Ok(first) = &sub {
            // consuming impl vs borrowing impl
            if let Ok(owned) = Yuv::<T>::try_from((r.clone(), cfg)) {
                if (0..3).any(|p| owned.data()[p] != first.data()[p]) || owned.config() != first.config() {
                    viol("owned-vs-borrowed|Yuv::try_from((Rgb,cfg))", format!("Yuv::try_from((rgb,cfg)) and Yuv::try_from((&rgb,cfg)) differ for a {w}x{h} image"), case());
                }
            }
            let other = pick_cfg(idx + 1, depth, (0, 0));
            let other = YuvConfig { matrix_coefficients: cfg.matrix_coefficients, ..other };
            let r_other = Rgb::new(vec![[0.3, 0.6, 0.1], [0.9, 0.2, 0.4]], 2, 1, other.transfer_characteristics, other.color_primaries).unwrap();
            let _ = Yuv::<T>::try_from((&r_other, other));
            let again: Result<Yuv<T>, _> = Yuv::try_from((&r, cfg));
            let same = |a: &Yuv<T>, b: &Yuv<T>| (0..3).all(|p| a.data()[p] == b.data()[p]);
            match &again {
                Ok(a) if same(first, a) => {}
                _ => viol(
                    "history-dependent|Yuv::try_from((&Rgb,cfg))",
                    format!("encoding the same image again after encoding another image with {other:?} gives a different result"),
                    case().set("other_cfg", cfg_json(&other)),
                ),
            }
            if idx % 4 == 1 || DERIVED.contains(&cfg.matrix_coefficients) {
                let fresh = std::thread::scope(|s| s.spawn(|| Yuv::<T>::try_from((&r, cfg))).join());
                cnt.fresh_thread_checks.fetch_add(1, Relaxed);
                if let Ok(Ok(fr)) = fresh {
                    if !same(first, &fr) {
                        viol("history-dependent|fresh-thread-encode", "a fresh thread encodes the image differently from a thread that has already converted other images".into(), case());
                    }
                }
            }
        }
        if let (Ok(sub), Ok(full)) = (sub, full) {
            let ok_sizes = sub.data()[0].cfg.width == w && sub.data()[0].cfg.height == h && (1..3).all(|p| sub.data()[p].cfg.width == cw && sub.data()[p].cfg.height == ch) && sub.width() == w && sub.height() == h;
            if !ok_sizes {
                viol("plane-sizes|encode", format!("planes {:?}, expected luma {w}x{h}, chroma {cw}x{ch}", (0..3).map(|p| (sub.data()[p].cfg.width, sub.data()[p].cfg.height)).collect::<Vec<_>>()), case());
            } else {
                'outer: for y in 0..h {
                    for x in 0..w {
                        if sub.data()[0].p(x, y) != full.data()[0].p(x, y) {
                            viol("luma-differs|encode", format!("luma ({x},{y}) of the subsampled encode differs from the 4:4:4 encode of a {w}x{h} image"), case().set("x", x).set("y", y));
                            break 'outer;
                        }
                    }
                }
                'outer2: for cy in 0..ch {
                    for cx in 0..cw {
                        let (u, v) = (sub.data()[1].p(cx, cy), sub.data()[2].p(cx, cy));
                        cnt.chroma_checks.fetch_add(1, Relaxed);
                        let mut found = None;
                        for dy in 0..(1usize << ss.1) {
                            for dx in 0..(1usize << ss.0) {
                                let (x, y) = ((cx << ss.0) + dx, (cy << ss.1) + dy);
                                if found.is_none() && full.data()[1].p(x, y) == u && full.data()[2].p(x, y) == v {
                                    found = Some((dx, dy));
                                }
                            }
                        }
                        match found {
                            Some((dx, dy)) => *hist.entry((ss.0, ss.1, dx, dy)).or_insert(0) += 1,
                            None => {
                                viol("chroma-from-outside-block|encode", format!("chroma sample ({cx},{cy}) of the {w}x{h} {ss:?} encode equals the 4:4:4 chroma of no pixel in its block"), case().set("cx", cx).set("cy", cy));
                                break 'outer2;
                            }
                        }
                    }
                }
                // encode pointwise: 1x1 encodes of probe pixels
                for (x, y) in probe_pixels(w, h, &mut rng).into_iter().take(24) {
                    let r1 = Rgb::new(vec![px[y * w + x]], 1, 1, cfg.transfer_characteristics, cfg.color_primaries).unwrap();
                    if let Ok(o) = Yuv::<T>::try_from((&r1, cfg1)) {
                        cnt.pixel_checks.fetch_add(1, Relaxed);
                        if (0..3).any(|p| o.data()[p].p(0, 0) != full.data()[p].p(x, y)) {
                            viol("not-pointwise|Yuv::try_from((&Rgb,cfg))", format!("pixel ({x},{y}) of the {w}x{h} 4:4:4 encode differs from the encode of its 1x1 image"), case().set("x", x).set("y", y));
                            break;
                        }
                    }
                }
            }
        }
    }
}

/// float-image conversions: whole image vs 1x1 per pixel, vs the same pixels laid out as one row, repeated, source kept
fn float_checks(ctx: &Ctx, idx: u64, w: usize, h: usize, cnt: &Counters) {
    let mut rng = Rng::new(ctx.seed, 0x0C11_F000 + idx);
    let n = w * h;
    // distinct floats per pixel ...
    let mut px: Vec<[f32; 3]> = (0..n).map(|i| [((i as f32) + rng.unit() as f32) / (n as f32 + 1.0), rng.unit() as f32, (rng.unit() * 0.98 + 0.01) as f32]).collect();
    // ... except that every second image carries runs of *related* neighbours (equal pixels, permuted or repeated
    // components, components taken from the predecessor), so that state carried from one pixel to the next is observable
    if idx % 2 == 1 {
        for i in 1..n {
            let q = px[i - 1];
            px[i] = match (i + idx as usize) % 9 {
                0 => q,
                1 => [q[0], q[1], q[1]],
                2 => [q[0], q[0], q[2]],
                3 => [q[1], q[2], q[0]],
                4 => [q[0], q[1], q[0]],
                5 => [q[0], q[2], q[2]],
                6 => [q[2], q[1], q[0]],
                7 => [0.0, q[1], 0.0],
                // differs from its predecessor only in the sign of a zero when it follows case 7
                8 if q[0] == 0.0 => [-0.0, q[1], if i % 2 == 0 { 0.0 } else { -0.0 }],
                _ => px[i],
            };
        }
    }
    let t = TRANSFERS[(idx % 14) as usize];
    let p = PRIMARIES[((idx / 3) % 11) as usize];
    let case = || J::obj().set("kind", "c11-float").set("w", w).set("h", h).set("transfer", format!("{t:?}")).set("primaries", format!("{p:?}")).set("seed", ctx.seed).set("index", idx);
    type Conv = (&'static str, Box<dyn Fn(Vec<[f32; 3]>, usize, usize) -> Option<(Vec<[f32; 3]>, usize, usize)>>);
    let convs: Vec<Conv> = vec![
        ("LinearRgb::try_from(Rgb)", Box::new(move |d, w, h| LinearRgb::try_from(Rgb::new(d, w, h, t, p).ok()?).ok().map(|o| (o.data().to_vec(), o.width(), o.height())))),
        ("Xyb::try_from(Rgb)", Box::new(move |d, w, h| Xyb::try_from(Rgb::new(d, w, h, t, p).ok()?).ok().map(|o| (o.data().to_vec(), o.width(), o.height())))),
        ("Rgb::try_from((LinearRgb,t,p))", Box::new(move |d, w, h| Rgb::try_from((LinearRgb::new(d, w, h).ok()?, t, p)).ok().map(|o| (o.data().to_vec(), o.width(), o.height())))),
        ("Rgb::try_from((Xyb,t,p))", Box::new(move |d, w, h| Rgb::try_from((Xyb::new(d, w, h).ok()?, t, p)).ok().map(|o| (o.data().to_vec(), o.width(), o.height())))),
        // Unspecified metadata is resolved (sRGB / BT.709) on every call, not only on the first one
        ("Rgb::try_from((LinearRgb,Unspecified,Unspecified))", Box::new(|d, w, h| Rgb::try_from((LinearRgb::new(d, w, h).ok()?, TC::Unspecified, CP::Unspecified)).ok().map(|o| (o.data().to_vec(), o.width(), o.height())))),
        ("Rgb::try_from((Xyb,Unspecified,p))", Box::new(move |d, w, h| Rgb::try_from((Xyb::new(d, w, h).ok()?, TC::Unspecified, p)).ok().map(|o| (o.data().to_vec(), o.width(), o.height())))),
        ("Xyb::from(LinearRgb)", Box::new(|d, w, h| Some(Xyb::from(LinearRgb::new(d, w, h).ok()?)).map(|o| (o.data().to_vec(), o.width(), o.height())))),
        ("LinearRgb::from(Xyb)", Box::new(|d, w, h| Some(LinearRgb::from(Xyb::new(d, w, h).ok()?)).map(|o| (o.data().to_vec(), o.width(), o.height())))),
        ("Hsl::from(LinearRgb)", Box::new(|d, w, h| Some(Hsl::from(LinearRgb::new(d, w, h).ok()?)).map(|o| (o.data().to_vec(), o.width(), o.height())))),
        ("LinearRgb::from(Hsl)", Box::new(|d, w, h| Some(LinearRgb::from(Hsl::new(d, w, h).ok()?)).map(|o| (o.data().to_vec(), o.width(), o.height())))),
    ];
    for (name, f) in &convs {
        // HSL input wants hue in degrees
        let input: Vec<[f32; 3]> = if *name == "LinearRgb::from(Hsl)" { px.iter().map(|q| [q[0] * 359.9, q[1], q[2]]).collect() } else { px.clone() };
        let Some((out, ow, oh)) = f(input.clone(), w, h) else {
            viol(&format!("conversion-error|{name}"), format!("{name} failed for {t:?}/{p:?}"), case().set("conversion", *name));
            continue;
        };
        cnt.images.fetch_add(1, Relaxed);
        if ow != w || oh != h || out.len() != n {
            viol(&format!("dims|{name}"), format!("{w}x{h} in, {ow}x{oh} ({} px) out", out.len()), case().set("conversion", *name));
            continue;
        }
        // same pixels as a single row / single column
        if let Some((row, _, _)) = f(input.clone(), n, 1) {
            cnt.layout_checks.fetch_add(1, Relaxed);
            if let Some(i) = bits_eq(&out, &row) {
                viol(&format!("shape-dependent|{name}"), format!("pixel {i} of the {w}x{h} image differs from the same data converted as {n}x1"), case().set("conversion", *name));
            }
        }
        // the same pixels in reversed order and rotated by 1 and by 5 positions: pixel i must not care where it sits
        let mut rev = input.clone();
        rev.reverse();
        if let Some((o, _, _)) = f(rev, w, h) {
            cnt.layout_checks.fetch_add(1, Relaxed);
            if let Some(i) = (0..n).find(|&i| (0..3).any(|c| o[n - 1 - i][c].to_bits() != out[i][c].to_bits())) {
                viol(&format!("position-dependent|{name}"), format!("pixel {i} of the {w}x{h} image converts differently when the pixel order is reversed (then at index {})", n - 1 - i), case().set("conversion", *name));
            }
        }
        for k in [1usize, 5] {
            if n > k {
                let mut rot = input.clone();
                rot.rotate_left(k);
                if let Some((o, _, _)) = f(rot, w, h) {
                    cnt.layout_checks.fetch_add(1, Relaxed);
                    if let Some(i) = (0..n).find(|&i| (0..3).any(|c| o[(i + n - k) % n][c].to_bits() != out[i][c].to_bits())) {
                        viol(&format!("position-dependent|{name}"), format!("pixel {i} of the {w}x{h} image converts differently when the image is rotated by {k} pixels"), case().set("conversion", *name));
                    }
                }
            }
        }
        // a request the library refuses (unsupported transfer) in between must leave no trace: repeat and compare bit for bit,
        // also on data made of subnormals and tiny values (sensitive to floating-point control state)
        {
            let tiny: Vec<[f32; 3]> = input.iter().map(|q| [q[0] * 1e-38, f32::from_bits((q[1] * 1e6) as u32), q[2] * 1e-30]).collect();
            let t1 = f(tiny.clone(), w, h);
            let refused = Xyb::try_from(Rgb::new(vec![[0.5; 3]; 2], 2, 1, TC::BT1361E, CP::BT709).unwrap());
            std::hint::black_box(refused.is_err());
            let refused2 = Rgb::try_from((LinearRgb::new(vec![[0.5; 3]; 2], 2, 1).unwrap(), TC::Linear, CP::Reserved));
            std::hint::black_box(refused2.is_err());
            let t2 = f(tiny, w, h);
            if let (Some((a, _, _)), Some((b, _, _))) = (t1, t2) {
                if let Some(i) = bits_eq(&a, &b) {
                    viol(&format!("history-dependent|after-refused-request|{name}"), format!("pixel {i} (tiny / subnormal data) converts differently after an unrelated request was refused: {:?} vs {:?}", a[i], b[i]), case().set("conversion", *name));
                }
            }
        }
        if let Some((again, _, _)) = f(input.clone(), w, h) {
            if bits_eq(&out, &again).is_some() {
                viol(&format!("not-repeatable|{name}"), "two conversions of the same data differ".into(), case().set("conversion", *name));
            }
        }
        let mut r2 = rng.clone();
        for (x, y) in probe_pixels(w, h, &mut r2) {
            let i = y * w + x;
            cnt.pixel_checks.fetch_add(1, Relaxed);
            if let Some((one, _, _)) = f(vec![input[i]], 1, 1) {
                if bits_eq(&out[i..i + 1], &one).is_some() {
                    viol(&format!("not-pointwise|{name}"), format!("pixel ({x},{y}) of the {w}x{h} image converts to {:?}, alone to {:?}", out[i], one[0]), case().set("conversion", *name).set("x", x).set("y", y));
                    break;
                }
            }
        }
    }
    // float -> YUV 4:4:4 and subsampled dims, pointwise for LinearRgb and Xyb sources
    let cfg = pick_cfg(idx, 10, (0, 0));
    let cfg = YuvConfig { matrix_coefficients: MATRICES[(idx % 7) as usize], ..cfg };
    for (name, src) in [("Yuv::try_from((LinearRgb,cfg))", 0), ("Yuv::try_from((Xyb,cfg))", 1)] {
        let mk = |d: Vec<[f32; 3]>, w: usize, h: usize| -> Option<Yuv<u16>> {
            if src == 0 {
                Yuv::try_from((LinearRgb::new(d, w, h).ok()?, cfg)).ok()
            } else {
                Yuv::try_from((Xyb::new(d, w, h).ok()?, cfg)).ok()
            }
        };
        // in-gamut XYB data: derive from the linear pixels
        let input: Vec<[f32; 3]> = if src == 1 { Xyb::from(LinearRgb::new(px.clone(), w, h).unwrap()).into_data() } else { px.clone() };
        let Some(whole) = mk(input.clone(), w, h) else {
            viol(&format!("conversion-error|{name}"), format!("{cfg:?}"), case().set("conversion", name));
            continue;
        };
        cnt.images.fetch_add(1, Relaxed);
        if whole.width() != w || whole.height() != h || whole.config() != cfg {
            viol(&format!("dims|{name}"), format!("{}x{} {:?}", whole.width(), whole.height(), whole.config()), case().set("conversion", name));
            continue;
        }
        let mut r2 = rng.clone();
        for (x, y) in probe_pixels(w, h, &mut r2).into_iter().take(20) {
            if let Some(one) = mk(vec![input[y * w + x]], 1, 1) {
                cnt.pixel_checks.fetch_add(1, Relaxed);
                if (0..3).any(|pl| one.data()[pl].p(0, 0) != whole.data()[pl].p(x, y)) {
                    viol(&format!("not-pointwise|{name}"), format!("pixel ({x},{y}) of the {w}x{h} image encodes differently from its 1x1 image"), case().set("conversion", name).set("x", x).set("y", y));
                    break;
                }
            }
        }
    }
}

/// One large image per layout (quick about 1e6 pixels, thorough more than 2^24 so that pixel indices leave the range
/// in which f32 and 24-bit arithmetic are exact): the whole-image result must equal the results of its top and
/// bottom halves converted separately, and the 1x1 conversions of corner, tail and random pixels.
fn large_image_checks(ctx: &Ctx, cnt: &Counters) {
    let (w, h) = if ctx.tier == Tier::Thorough { (4132usize, 4128usize) } else { (1032usize, 1028usize) };
    let layouts: [((u8, u8), u8, bool); 3] = [((1, 1), 8, true), ((0, 0), 10, false), ((1, 0), 16, false)];
    std::thread::scope(|sc| {
        for (li, (ss, depth, u8s)) in layouts.into_iter().enumerate() {
            sc.spawn(move || {
                let r = ev::guarded(|| {
                    if u8s {
                        large_one::<u8>(ctx, li as u64, w, h, ss, depth, cnt)
                    } else {
                        large_one::<u16>(ctx, li as u64, w, h, ss, depth, cnt)
                    }
                });
                if let Err(msg) = r {
                    ev::violation(format!("C11|panic|large-image|{}", ev::panic_site(&msg)), msg, J::obj().set("kind", "c11-large").set("w", w).set("h", h));
                }
                yuvxyb_math::verif::flush();
            });
        }
    });
}

fn large_one<T: Pixel>(ctx: &Ctx, li: u64, w: usize, h: usize, ss: (u8, u8), depth: u8, cnt: &Counters) {
    let maxv = if std::mem::size_of::<T>() == 1 { 255u64 } else { (1u64 << depth) - 1 };
    let cfg = pick_cfg(li * 5 + 1, depth, ss);
    let (cw, ch) = (w >> ss.0, h >> ss.1);
    let val = |p: usize, x: usize, y: usize| -> u32 { (crate::gen::hash64((p as u64) << 48 | (y as u64) << 24 | x as u64) % (maxv + 1)) as u32 };
    let whole: Img<T> = Img {
        w,
        h,
        ss,
        planes: [
            (0..w * h).map(|i| val(0, i % w, i / w)).collect(),
            (0..cw * ch).map(|i| val(1, i % cw, i / cw)).collect(),
            (0..cw * ch).map(|i| val(2, i % cw, i / cw)).collect(),
        ],
        _t: std::marker::PhantomData,
    };
    let mut junk = Rng::new(ctx.seed, 0xB16 + li);
    let case = || J::obj().set("kind", "c11-large").set("w", w).set("h", h).set("ss", [ss.0, ss.1]).set("cfg", cfg_json(&cfg));
    let Ok(full) = Rgb::try_from(&build_yuv(&whole, PADS[0], &mut junk, cfg)) else {
        viol("decode-error|large-image", format!("{cfg:?}"), case());
        return;
    };
    cnt.images.fetch_add(1, Relaxed);
    // halves (split on a chroma-row boundary)
    let h1 = (h / 2) & !3;
    for (y0, y1) in [(0usize, h1), (h1, h)] {
        let hh = y1 - y0;
        let (c0, c1) = (y0 >> ss.1, y1 >> ss.1);
        let part: Img<T> = Img {
            w,
            h: hh,
            ss,
            planes: [whole.planes[0][y0 * w..y1 * w].to_vec(), whole.planes[1][c0 * cw..c1 * cw].to_vec(), whole.planes[2][c0 * cw..c1 * cw].to_vec()],
            _t: std::marker::PhantomData,
        };
        let Ok(pr) = Rgb::try_from(&build_yuv(&part, PADS[3], &mut junk, cfg)) else { continue };
        cnt.layout_checks.fetch_add(1, Relaxed);
        if let Some(i) = bits_eq(&full.data()[y0 * w..y1 * w], pr.data()) {
            viol(
                "position-dependent|large-image",
                format!("pixel {} of the {w}x{h} image (row {}) decodes differently from the same pixel in the {w}x{hh} image holding rows {y0}..{y1}", y0 * w + i, y0 + i / w.max(1)),
                case().set("rows", [y0, y1]),
            );
        }
    }
    // 1x1 probes: corners, the last pixels, around index 2^24, random
    let cfg1 = YuvConfig { subsampling_x: 0, subsampling_y: 0, ..cfg };
    let n = w * h;
    let mut idxs: Vec<usize> = vec![0, w - 1, n - w, n - 1, n - 2, n - 3, n - 5, n / 2];
    for d in [-1i64, 0, 1] {
        let k = (1i64 << 24) + d;
        if (k as usize) < n {
            idxs.push(k as usize);
        }
    }
    for _ in 0..64 {
        idxs.push(junk.below(n as u64) as usize);
    }
    for i in idxs {
        let (x, y) = (i % w, i / w);
        let t = [whole.planes[0][i], whole.planes[1][(y >> ss.1) * cw + (x >> ss.0)], whole.planes[2][(y >> ss.1) * cw + (x >> ss.0)]];
        let one: Yuv<T> = mk_yuv(&[t], cfg1);
        cnt.pixel_checks.fetch_add(1, Relaxed);
        if let Ok(r1) = Rgb::try_from(&one) {
            if bits_eq(&full.data()[i..i + 1], r1.data()).is_some() {
                viol("not-pointwise|large-image", format!("pixel ({x},{y}) of the {w}x{h} image decodes to {:?}, its 1x1 image to {:?}", full.data()[i], r1.data()[0]), case().set("x", x).set("y", y));
                break;
            }
        }
    }
    // float chain on the decoded data: the whole image vs its halves through LinearRgb -> Xyb -> LinearRgb
    let chain = |d: Vec<[f32; 3]>, ww: usize, hh: usize| -> Option<Vec<[f32; 3]>> {
        let r = Rgb::new(d, ww, hh, cfg.transfer_characteristics, cfg.color_primaries).ok()?;
        let l = LinearRgb::try_from(r).ok()?;
        Some(LinearRgb::from(Xyb::from(l)).into_data())
    };
    if let Some(fc) = chain(full.data().to_vec(), w, h) {
        for (y0, y1) in [(0usize, h1), (h1, h)] {
            if let Some(pc) = chain(full.data()[y0 * w..y1 * w].to_vec(), w, y1 - y0) {
                cnt.layout_checks.fetch_add(1, Relaxed);
                if let Some(i) = bits_eq(&fc[y0 * w..y1 * w], &pc) {
                    viol("position-dependent|large-image|float-chain", format!("pixel {} of the {w}x{h} image converts differently (Rgb->LinearRgb->Xyb->LinearRgb) from the same pixel in a half-height image", y0 * w + i), case().set("rows", [y0, y1]));
                }
            }
        }
    }
}

fn sizes(ctx: &Ctx) -> Vec<(usize, usize)> {
    let mut v = Vec::new();
    if ctx.tier == Tier::Thorough {
        for w in 1..=64 {
            for h in 1..=64 {
                v.push((w, h));
            }
        }
    } else {
        for w in 1..=24 {
            for h in 1..=24 {
                v.push((w, h));
            }
        }
        let s = [1usize, 2, 3, 4, 7, 8, 16, 31, 32, 33, 48, 63, 64];
        for w in s {
            for h in s {
                if w > 24 || h > 24 {
                    v.push((w, h));
                }
            }
        }
    }
    v
}

pub fn c11(ctx: &Ctx) {
    let szs = sizes(ctx);
    let cnt = Counters { images: AtomicU64::new(0), pixel_checks: AtomicU64::new(0), layout_checks: AtomicU64::new(0), chroma_checks: AtomicU64::new(0), fresh_thread_checks: AtomicU64::new(0) };
    let hist: Mutex<BTreeMap<(u8, u8, usize, usize), u64>> = Mutex::new(BTreeMap::new());
    let cases = AtomicU64::new(0);
    ev::par_ranges("C11", szs.len() as u64, 1, |_w, a, _b| {
        let (w, h) = szs[a as usize];
        let mut lh = BTreeMap::new();
        let mut k = 0u64;
        for (si, ss) in SS.iter().enumerate() {
            if w % (1 << ss.0) != 0 || h % (1 << ss.1) != 0 {
                continue;
            }
            for (ti, (u8s, depth)) in [(true, 8u8), (false, 10), (false, 16), (false, 8)].iter().enumerate() {
                let idx = a * 64 + (si * 4 + ti) as u64;
                k += 1;
                if *u8s {
                    yuv_source_checks::<u8>(ctx, idx, w, h, *ss, *depth, &cnt, &mut lh);
                } else {
                    yuv_source_checks::<u16>(ctx, idx, w, h, *ss, *depth, &cnt, &mut lh);
                }
            }
        }
        for r in 0..2 {
            float_checks(ctx, a * 2 + r, w, h, &cnt);
            k += 1;
        }
        cases.fetch_add(k, Relaxed);
        let mut g = hist.lock().unwrap();
        for (key, v) in lh {
            *g.entry(key).or_insert(0) += v;
        }
    });
    large_image_checks(ctx, &cnt);
    let g = hist.lock().unwrap();
    let tbl: Vec<J> = g.iter().map(|((sx, sy, dx, dy), n)| J::obj().set("ss", [*sx, *sy]).set("source_pixel_in_block", [*dx, *dy]).set("chroma_samples", *n)).collect();
    ev::observe("chroma_source_pixel_histogram", J::Arr(tbl));
    ev::observe("size_pairs", szs.len());
    ev::observe("image_configurations", cases.load(Relaxed));
    ev::observe("images_converted", cnt.images.load(Relaxed));
    ev::observe("single_pixel_comparisons", cnt.pixel_checks.load(Relaxed));
    ev::observe("relayout_comparisons", cnt.layout_checks.load(Relaxed));
    ev::observe("chroma_block_membership_checks", cnt.chroma_checks.load(Relaxed));
    ev::observe("fresh_thread_comparisons", cnt.fresh_thread_checks.load(Relaxed));
    ev::sample(J::obj().set("size", [szs[szs.len() / 2].0, szs[szs.len() / 2].1]).set("layouts", "6 subsamplings x {u8/8,u16/10,u16/16,u16/8} x 7 padding triples"));
    let total = cnt.pixel_checks.load(Relaxed) + cnt.layout_checks.load(Relaxed) + cnt.chroma_checks.load(Relaxed) + cnt.images.load(Relaxed);
    ev::add_evals(total);
    ev::add_nontrivial(cases.load(Relaxed));
    ev::exhaustive(false);
    ev::rule(
        "image sizes (quick {1..8,15,16,17,31,32,33,63,64}^2, thorough all of 1..=64 squared) x subsampling (0,0),(1,0),(1,1),(0,1),(2,0),(2,2) (when divisible) x storage {u8/8,u16/10,u16/16,u16/8}, \
         configurations rotating through standard and primaries-derived matrices, 14 curves, 10 primaries; images carry a distinct code / float per pixel. Checks (all bit-exact): whole-image conversion vs the 1x1 image of a pixel \
         (all pixels up to 64, else corners, tail and random pixels), vs the same data re-laid-out, vs 7 padding triples with randomised padding contents (U and V padded differently), repeated, repeated after an unrelated conversion, \
         repeated on a fresh thread, borrowed source unchanged; subsampled encode vs 4:4:4 encode (luma equal, chroma from its own block, plane sizes). distinct/non-trivial = (size, layout, storage) configurations",
    );
}

pub fn replay(case: &J) -> bool {
    let kind = case.get("kind").and_then(J::as_str).unwrap_or("");
    let (Some(w), Some(h), Some(idx), Some(seed)) = (case.get("w").and_then(J::as_u64), case.get("h").and_then(J::as_u64), case.get("index").and_then(J::as_u64), case.get("seed").and_then(J::as_u64)) else { return false };
    let ctx = Ctx { monitor: "C11".into(), tier: Tier::Quick, seed, build: String::new(), out: None, args: Default::default() };
    let cnt = Counters { images: AtomicU64::new(0), pixel_checks: AtomicU64::new(0), layout_checks: AtomicU64::new(0), chroma_checks: AtomicU64::new(0), fresh_thread_checks: AtomicU64::new(0) };
    let mut lh = BTreeMap::new();
    match kind {
        "c11-yuv" => {
            let ss = case.get("ss").and_then(J::as_arr).map(|a| (a[0].as_u64().unwrap_or(0) as u8, a[1].as_u64().unwrap_or(0) as u8)).unwrap_or((0, 0));
            let depth = case.get("cfg").and_then(|c| c.get("bit_depth")).and_then(J::as_u64).unwrap_or(8) as u8;
            if case.get("u8").and_then(J::as_bool).unwrap_or(false) {
                yuv_source_checks::<u8>(&ctx, idx, w as usize, h as usize, ss, depth, &cnt, &mut lh);
            } else {
                yuv_source_checks::<u16>(&ctx, idx, w as usize, h as usize, ss, depth, &cnt, &mut lh);
            }
        }
        "c11-float" => float_checks(&ctx, idx, w as usize, h as usize, &cnt),
        _ => return false,
    }
    ev::add_evals(cnt.pixel_checks.load(Relaxed) + 1);
    true
}
