//! C20 helpers: (probe) in an exact-math build the math helpers must *be* libm (runtime evidence that
//! `--no-default-features` reaches the math crate); (dump) outputs of every stage for one seeded input
//! set, written as raw f32 so that the driver can compare builds with each other.
use crate::ev;
use crate::gen::Rng;
use crate::json::J;
use crate::mon_math::LIB_EXPONENTS;
use crate::mon_transfer::budget_c03;
use crate::oracle::TRANSFERS;
use crate::util::*;
use crate::{Ctx, Tier};
use std::io::Write;
use yuvxyb::*;
use yuvxyb_math::{cbrtf, expf, powf};

fn ulps(a: f32, b: f32) -> u64 {
    if a.is_nan() && b.is_nan() {
        return 0;
    }
    if a.is_nan() != b.is_nan() {
        return u64::MAX;
    }
    let key = |v: f32| -> i64 {
        let b = v.to_bits() as i32;
        (if b < 0 { i32::MIN.wrapping_sub(b) } else { b }) as i64
    };
    (key(a) - key(b)).unsigned_abs()
}

pub fn probe(ctx: &Ctx) {
    let exact = !cfg!(feature = "fastmath");
    ev::observe("harness_fastmath_feature", !exact);
    if !exact {
        ev::note("probe is only meaningful in a build without the fastmath feature");
    }
    let mut rng = Rng::new(ctx.seed, 0xC20);
    let n: u64 = ctx.pick(1 << 20, 1 << 24);
    let mut worst = [(0u64, 0f32, 0f32); 3];
    for i in 0..n {
        let x = match i % 4 {
            0 => f32::from_bits(rng.below(0x7F00_0000) as u32 + 0x0080_0000),
            1 => f32::from_bits(((1 + rng.below(253)) as u32) << 23), // an exact power of two
            _ => rng.unit() as f32,
        };
        // the exponents the library uses, small integers, and anything in [-80, 80]
        // every eighth base is tiny, so that results in the subnormal range occur
        let x = if i % 8 == 5 { (10f64.powf(-rng.range(10.0, 19.0))) as f32 } else { x };
        let y = match i % 3 {
            0 => rng.pick(&LIB_EXPONENTS),
            1 => (rng.below(17) as f32) - 8.0,
            _ => rng.range(-80.0, 80.0) as f32,
        };
        let (pa, pb) = (powf(x, y), x.powf(y));
        // in an exact build the helper *is* libm, also where libm underflows gradually; only infinite / NaN results are left out
        let a = if pb.is_finite() && pb != 0.0 { ulps(pa, pb) } else { 0 };
        if a > worst[0].0 {
            worst[0] = (a, x, y);
        }
        let xe = if i % 8 == 0 { rng.range(-103.0, -87.0) } else { rng.range(-87.0, 88.0) } as f32;
        let b = ulps(expf(xe), xe.exp());
        if b > worst[1].0 {
            worst[1] = (b, xe, 0.0);
        }
        let xs = if rng.coin() { x } else { -x };
        let c = ulps(cbrtf(xs), xs.cbrt());
        if c > worst[2].0 {
            worst[2] = (c, xs, 0.0);
        }
    }
    for (k, name) in ["powf", "expf", "cbrtf"].iter().enumerate() {
        let (u, x, y) = worst[k];
        ev::observe(&format!("{name}_max_ulps_from_libm"), u);
        if exact && u > 2 {
            ev::violation(
                format!("C20|not-libm|{name}"),
                format!("built without the fastmath feature, yuvxyb_math::{name}({x:e}{}) is {u} ulp from libm: the exact-math switch does not reach the math crate", if k == 0 { format!(", {y}") } else { String::new() }),
                J::obj().set("kind", "probe").set("fn", *name).set("x_bits", x.to_bits()).set("y_bits", y.to_bits()),
            );
        }
    }
    ev::sample(J::obj().set("probe", "powf(x, y) vs f32::powf for y in the library's exponents").set("pairs", n));
    ev::add_evals(n * 3);
    ev::add_nontrivial(n * 3);
    ev::rule("exact-math probe: 2^20 (thorough 2^24) seeded random arguments per helper (powf with the library's exponents, expf on [-87,88], cbrtf on normals of both signs) compared with std's libm in ulps");
}

pub fn dump(ctx: &Ctx) {
    let Some(path) = ctx.arg("dump") else {
        ev::inconclusive("no --dump path");
        return;
    };
    let n: usize = if ctx.tier == Tier::Thorough { 1 << 16 } else { 1 << 13 };
    let mut rng = Rng::new(ctx.seed, 0xD0_C20);
    let mut out: Vec<f32> = Vec::new();
    let mut sections: Vec<J> = Vec::new();
    let mut push = |name: String, vals: Vec<f32>, budget: f64, kind: &str, out: &mut Vec<f32>| {
        sections.push(J::obj().set("name", name).set("count", vals.len()).set("budget", budget).set("kind", kind));
        out.extend(vals);
    };
    // decode
    for (m, full, depth) in [(MC::BT709, false, 10u8), (MC::BT2020NonConstantLuminance, true, 12), (MC::YCgCo, false, 8)] {
        let maxc = 1u64 << depth;
        let tri: Vec<[u32; 3]> = (0..n).map(|_| [rng.below(maxc) as u32, rng.below(maxc) as u32, rng.below(maxc) as u32]).collect();
        let y: Yuv<u16> = mk_yuv(&tri, cfg444(m, full, depth));
        let vals: Vec<f32> = Rgb::try_from(&y).map(|r| r.data().iter().flatten().copied().collect()).unwrap_or_default();
        push(format!("decode:{m:?}:{depth}"), vals, 6e-6, "abs", &mut out);
    }
    // curves
    let xs: Vec<[f32; 3]> = (0..n / 3 + 1).map(|i| if i % 2 == 0 { [rng.unit_bits(), rng.unit() as f32, rng.unit_bits()] } else { [rng.unit() as f32, rng.unit_bits(), rng.unit() as f32] }).collect();
    for t in TRANSFERS {
        for dir in 0..2 {
            let r = if dir == 0 { lin_of(t, xs.clone()) } else { gam_of(t, xs.clone()) };
            let vals: Vec<f32> = r.map(|v| v.iter().flatten().copied().collect()).unwrap_or_default();
            // the two builds agree within the fastmath budget of the stage
            let b = if t == TC::PerceptualQuantizer && dir == 1 { 5.7e-4 } else { 2.5e-4 };
            let _ = budget_c03;
            push(format!("curve:{t:?}:{}", if dir == 0 { "to_linear" } else { "to_gamma" }), vals, b, "abs", &mut out);
        }
    }
    // xyb
    let px: Vec<[f32; 3]> = (0..n / 3 + 1).map(|_| [rng.unit() as f32, rng.unit() as f32, rng.unit() as f32]).collect();
    let np = px.len();
    let x = Xyb::from(LinearRgb::new(px.clone(), np, 1).unwrap());
    push("xyb:forward".into(), x.data().iter().flatten().copied().collect(), 4e-6, "abs", &mut out);
    let back = LinearRgb::from(x);
    push("xyb:roundtrip".into(), back.data().iter().flatten().copied().collect(), 1e-4, "abs", &mut out);
    let h = Hsl::from(LinearRgb::new(px.clone(), np, 1).unwrap());
    push("hsl:forward".into(), h.data().iter().flatten().copied().collect(), 1e-2, "abs", &mut out);
    // math
    let mut pv = Vec::with_capacity(n);
    let mut evs = Vec::with_capacity(n);
    let mut cv = Vec::with_capacity(n);
    for _ in 0..n {
        let xx = rng.unit() as f32 + f32::MIN_POSITIVE;
        let y = rng.pick(&LIB_EXPONENTS[..12]);
        let want = (xx as f64).powf(y as f64);
        pv.push(if (1e-35..=1e35).contains(&want) { powf(xx, y) } else { 1.0 });
        evs.push(expf(rng.range(-85.0, 85.0) as f32));
        cv.push(cbrtf(f32::from_bits(rng.below(0x7F00_0000) as u32 + 0x0080_0000)));
    }
    push("powf:lib-exponents".into(), pv, 2.5e-4 + 8e-6 * 78.84375, "rel", &mut out);
    // a zero base: every build must agree on 0^y (1 for y = 0, 0 for the exponents >= 1/2.4 that the curves use) within 1e-6;
    // smaller exponents are left out: the fast log2 saturates at -127 for a zero base, outside powf's contract domain
    let mut zv = Vec::new();
    for x in [0.0f32, -0.0] {
        for y in [0.0f32, -0.0, 0.5, 1.0, 2.0, 2.4, 1.0 / 2.4, 80.0] {
            zv.push(powf(x, y));
        }
    }
    push("powf:zero-base".into(), zv, 1e-6, "abs", &mut out);
    push("expf:[-85,85]".into(), evs, 1e-5, "rel", &mut out);
    push("cbrtf:normals".into(), cv, 2.4e-7, "rel", &mut out);

    let mut f = std::fs::File::create(path).expect("create dump");
    let mut bytes = Vec::with_capacity(out.len() * 4);
    for v in &out {
        bytes.extend_from_slice(&v.to_le_bytes());
    }
    f.write_all(&bytes).expect("write dump");
    ev::observe("sections", J::Arr(sections));
    ev::observe("values", out.len());
    ev::sample(J::obj().set("dump", "seeded inputs through decode, 28 curve directions, XYB, HSL, powf/expf/cbrtf; raw f32 for cross-build comparison"));
    ev::add_evals(out.len() as u64);
    ev::add_nontrivial(out.len() as u64);
    ev::rule("cross-build dump: identical seeded inputs in every build; the driver compares each build's outputs with the default build's, section by section, against the stage's fastmath budget");
}
