use crate::Ctx;
pub fn probe(_ctx: &Ctx) {}
pub fn dump(_ctx: &Ctx) {}
