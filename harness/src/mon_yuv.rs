//! C01 (decode vs H.273), C02 (encode rounds to nearest), C08 (code round trip),
//! C16 (neutral axis and anchors).
use crate::ev::{self, Distinct, Worst};
use crate::gen::{hash64, hash_mix, Rng};
use crate::json::J;
use crate::oracle::*;
use crate::util::*;
use crate::Ctx;
use std::sync::atomic::{AtomicU64, Ordering::Relaxed};
use std::sync::Mutex;
use yuvxyb::*;

const TOL_C01: f64 = 3e-6;

fn configs() -> Vec<(MC, bool, u8)> {
    let mut v = Vec::new();
    for m in MATRICES {
        for full in [false, true] {
            for n in 8u8..=16 {
                v.push((m, full, n));
            }
        }
    }
    v
}

fn boundary_codes(n: u8) -> Vec<u32> {
    let k = 1u32 << (n - 8);
    let max = (1u32 << n) - 1;
    let mid = 1u32 << (n - 1);
    let mut v = vec![0, 1, 2, 16 * k - 1, 16 * k, 16 * k + 1, mid - 1, mid, mid + 1, 235 * k - 1, 235 * k, 235 * k + 1, 240 * k - 1, 240 * k, 240 * k + 1, max - 1, max];
    v.retain(|c| *c <= max);
    v.sort_unstable();
    v.dedup();
    v
}

#[derive(Default)]
struct DecStats {
    clamped_luma: AtomicU64,
    clamped_chroma: AtomicU64,
    out_of_gamut: AtomicU64,
    grey: AtomicU64,
}

#[derive(Clone, Copy)]
struct DecAt {
    cfg: usize,
    u8s: bool,
    tri: [u32; 3],
    c: usize,
    got: f32,
    want: f64,
}

/// Decode `tri` as N x 1 4:4:4 frames and compare with the oracle. A long slice is presented as three frames:
/// one whose width is a multiple of 64 (plane stride == width), one of odd width (vector tails), one tiny.
fn decode_check<T: Pixel>(ci: usize, cfg: (MC, bool, u8), tri: &[[u32; 3]], worst: &mut Worst<DecAt>, stats: &DecStats, mut roundtrip: Option<&mut RtStats>) {
    if tri.len() < 256 {
        return decode_check_one::<T>(ci, cfg, tri, worst, stats, roundtrip);
    }
    let a = (tri.len() / 2) & !63;
    let rest = tri.len() - a;
    let b = a + rest - 1 - (rest % 2); // odd-length middle part
    for part in [&tri[..a], &tri[a..b], &tri[b..]] {
        if !part.is_empty() {
            decode_check_one::<T>(ci, cfg, part, worst, stats, roundtrip.as_deref_mut());
        }
    }
}

fn decode_check_one<T: Pixel>(
    ci: usize,
    (m, full, n): (MC, bool, u8),
    tri: &[[u32; 3]],
    worst: &mut Worst<DecAt>,
    stats: &DecStats,
    roundtrip: Option<&mut RtStats>,
) {
    let u8s = std::mem::size_of::<T>() == 1;
    // the YUV<->RGB stage uses matrix, range and depth only: the transfer / primaries labels rotate through every enum
    // value (reserved and unsupported ones too), and every third call leaves them Unspecified in the request
    // (the rotation also depends on the first triple, so that every chunk of a config's workload carries other labels)
    let rot = ci * 7 + tri.len() + tri.first().map_or(0, |t| (t[0] as usize) * 31 + (t[1] as usize) * 17 + t[2] as usize);
    let raw = if rot % 3 == 0 {
        YuvConfig { transfer_characteristics: TC::Unspecified, color_primaries: CP::Unspecified, ..cfg444(m, full, n) }
    } else {
        YuvConfig { transfer_characteristics: ALL_TC[(rot / 3) % ALL_TC.len()], color_primaries: ALL_CP[(rot / 7) % ALL_CP.len()], ..cfg444(m, full, n) }
    };
    let yuv: Yuv<T> = mk_yuv(tri, raw);
    let cfg = yuv.config(); // == raw unless a field was Unspecified
    let rgb = match Rgb::try_from(&yuv) {
        Ok(r) => r,
        Err(e) => {
            ev::violation(
                format!("{}|decode-error|{m:?}", if roundtrip.is_some() { "C08" } else { "C01" }),
                format!("Rgb::try_from(&Yuv) failed with {e:?} for a standard matrix"),
                J::obj().set("kind", "decode").set("matrix", format!("{m:?}")).set("full", full).set("n", n).set("u8", u8s).set("yuv", tri[0]),
            );
            return;
        }
    };
    if rgb.width() != tri.len() || rgb.height() != 1 || rgb.data().len() != tri.len() {
        ev::violation(
            format!("C01|dims|{m:?}"),
            format!("decoded image is {}x{} with {} pixels, expected {}x1", rgb.width(), rgb.height(), rgb.data().len(), tri.len()),
            J::obj().set("kind", "decode").set("matrix", format!("{m:?}")).set("full", full).set("n", n).set("u8", u8s).set("yuv", tri[0]),
        );
        return;
    }
    let k = 1u32 << (n - 8);
    let mid = 1u32 << (n - 1);
    let (mut cl, mut cc, mut og, mut gr) = (0u64, 0u64, 0u64, 0u64);
    for (t, got) in tri.iter().zip(rgb.data()) {
        let want = ypbpr_to_rgb(m, normalise(*t, n as u32, full));
        for c in 0..3 {
            let e = (got[c] as f64 - want[c]).abs();
            worst.upd(e, DecAt { cfg: ci, u8s, tri: *t, c, got: got[c], want: want[c] });
        }
        if !full {
            if t[0] < 16 * k || t[0] > 235 * k {
                cl += 1;
            }
            if t[1] < 16 * k || t[1] > 240 * k || t[2] < 16 * k || t[2] > 240 * k {
                cc += 1;
            }
        }
        if want.iter().any(|v| *v < 0.0 || *v > 1.0) {
            og += 1;
        }
        if t[1] == mid && t[2] == mid {
            gr += 1;
        }
    }
    stats.clamped_luma.fetch_add(cl, Relaxed);
    stats.clamped_chroma.fetch_add(cc, Relaxed);
    stats.out_of_gamut.fetch_add(og, Relaxed);
    stats.grey.fetch_add(gr, Relaxed);

    if let Some(rt) = roundtrip {
        // C08: encode again with the config the caller has (the raw request) and compare sample by sample
        let back: Yuv<T> = match Yuv::try_from((&rgb, raw)) {
            Ok(b) => b,
            Err(e) => {
                ev::violation(
                    format!("C08|encode-error|{m:?}"),
                    format!("Yuv::try_from((&Rgb,cfg)) failed with {e:?}"),
                    J::obj().set("kind", "roundtrip").set("matrix", format!("{m:?}")).set("full", full).set("n", n).set("u8", u8s).set("yuv", tri[0]),
                );
                return;
            }
        };
        if back.config() != cfg || back.width() != tri.len() || back.height() != 1 {
            ev::violation(
                format!("C08|config-or-dims|{m:?}"),
                format!("round trip changed config/dims: {:?} {}x{}", back.config(), back.width(), back.height()),
                J::obj().set("kind", "roundtrip").set("matrix", format!("{m:?}")).set("full", full).set("n", n).set("u8", u8s).set("yuv", tri[0]),
            );
            return;
        }
        for (i, t) in tri.iter().enumerate() {
            for p in 0..3 {
                let got: u32 = u32::cast_from(back.data()[p].p(i, 0));
                let mut exp = t[p];
                let mut clamped = false;
                if !full {
                    let e2 = exp.clamp(16 * k, if p == 0 { 235 * k } else { 240 * k });
                    clamped = e2 != exp;
                    exp = e2;
                }
                if clamped {
                    rt.clamped += 1;
                }
                if got == exp {
                    continue;
                }
                if full && p > 0 && t[p] == 0 && got == 1 {
                    rt.tolerated_0_to_1 += 1;
                    continue;
                }
                rt.bad += 1;
                if rt.first_bad.is_none() {
                    rt.first_bad = Some((ci, u8s, *t, p, got, exp));
                }
            }
        }
    }
}

#[derive(Default)]
struct RtStats {
    clamped: u64,
    tolerated_0_to_1: u64,
    bad: u64,
    first_bad: Option<(usize, bool, [u32; 3], usize, u32, u32)>,
}

/// the triple workload for one config; calls `f(chunk_of_triples, exhaustive_part)`
fn triple_workload(ctx: &Ctx, ci: usize, n: u8, distinct: &Distinct, direct_nontrivial: &AtomicU64, mut f: impl FnMut(&[[u32; 3]], bool)) {
    let maxc = 1u64 << n;
    let mid = 1u32 << (n - 1);
    let nontriv = |t: &[u32; 3]| t[1] != mid || t[2] != mid;
    if n == 8 {
        // all 2^24 triples, in chunks of 2^16 (fixed V, all Y x U)
        let lite = ctx.flag("lite");
        for v in 0..256u32 {
            if lite && v % 8 != (ctx.seed % 8) as u32 && v != 0 && v != 255 && v != 128 {
                continue;
            }
            let tri: Vec<[u32; 3]> = (0..65536u32).map(|i| [i & 255, i >> 8, v]).collect();
            direct_nontrivial.fetch_add(tri.iter().filter(|t| nontriv(t)).count() as u64, Relaxed);
            f(&tri, true);
        }
        return;
    }
    // per-plane full sweeps
    for p in 0..3 {
        let tri: Vec<[u32; 3]> = (0..maxc as u32)
            .map(|v| {
                let mut t = [mid, mid, mid];
                t[p] = v;
                t
            })
            .collect();
        for t in &tri {
            if nontriv(t) {
                distinct.insert(hash_mix(ci as u64, (t[0] as u64) | ((t[1] as u64) << 16) | ((t[2] as u64) << 32)));
            }
        }
        f(&tri, false);
    }
    // boundary lattice
    let b = boundary_codes(n);
    let mut tri = Vec::with_capacity(b.len().pow(3));
    for y in &b {
        for u in &b {
            for v in &b {
                tri.push([*y, *u, *v]);
            }
        }
    }
    for t in &tri {
        if nontriv(t) {
            distinct.insert(hash_mix(ci as u64, (t[0] as u64) | ((t[1] as u64) << 16) | ((t[2] as u64) << 32)));
        }
    }
    f(&tri, false);
    // the same lattice in other contexts: frames of 1..7 pixels, and reversed with every triple doubled
    {
        let (mut i, mut len) = (0usize, 1usize);
        while i + len <= tri.len().min(1500) {
            f(&tri[i..i + len], false);
            i += len;
            len = len % 7 + 1;
        }
        let mut v = Vec::with_capacity(2000);
        for t in tri.iter().rev().take(1000) {
            v.push(*t);
            v.push(*t);
        }
        f(&v, false);
    }
    // random triples
    let total: u64 = ctx.arg_u64("triples").unwrap_or(if ctx.flag("lite") { 1 << 15 } else { ctx.pick(1 << 18, 1 << 26) });
    let mut rng = Rng::new(ctx.seed, 0x0C01_0000 + ci as u64);
    let mut done = 0u64;
    while done < total {
        let len = (total - done).min(1 << 16);
        let mx = maxc as u32 - 1;
        let tri: Vec<[u32; 3]> = (0..len)
            .map(|i| {
                let (a, b) = (rng.below(maxc) as u32, rng.below(maxc) as u32);
                // every fourth triple relates the planes to each other (equal, complementary, neighbouring codes)
                match if i % 4 == 0 { 1 + rng.below(9) } else { 0 } {
                    1 => [a, a, b],
                    2 => [a, b, a],
                    3 => [b, a, a],
                    4 => [a, a, a],
                    5 => [a, mx - a, b],
                    6 => [a, b, mx - b],
                    7 => [a, (a + 1).min(mx), a.saturating_sub(1)],
                    8 => [a, b, (b + 1).min(mx)],
                    9 => [mx - a, a, a],
                    _ => [a, b, rng.below(maxc) as u32],
                }
            })
            .collect();
        for t in &tri {
            if nontriv(t) {
                distinct.insert(hash_mix(ci as u64, (t[0] as u64) | ((t[1] as u64) << 16) | ((t[2] as u64) << 32)));
            }
        }
        f(&tri, false);
        done += len;
    }
    // thorough: exhaustive sub-cube for n = 9, 10 (all Y x all U x 8 V values)
    if ctx.tier == crate::Tier::Thorough && n <= 11 && !ctx.flag("lite") {
        let vs: Vec<u32> = (0..8).map(|i| (i * (maxc as u32 - 1)) / 7).collect();
        for v in vs {
            for u in 0..maxc as u32 {
                let tri: Vec<[u32; 3]> = (0..maxc as u32).map(|y| [y, u, v]).collect();
                for t in &tri {
                    if nontriv(t) {
                        distinct.insert(hash_mix(ci as u64, (t[0] as u64) | ((t[1] as u64) << 16) | ((t[2] as u64) << 32)));
                    }
                }
                f(&tri, false);
            }
        }
    }
}

fn dec_case(cfgs: &[(MC, bool, u8)], a: &DecAt) -> J {
    let (m, full, n) = cfgs[a.cfg];
    J::obj()
        .set("kind", "decode")
        .set("matrix", format!("{m:?}"))
        .set("full", full)
        .set("n", n)
        .set("u8", a.u8s)
        .set("yuv", a.tri)
        .set("component", a.c)
        .set("got", a.got)
        .set("want", a.want)
}

fn run_decode(ctx: &Ctx, prop: &str, roundtrip: bool) {
    let cfgs = configs();
    let only: Option<usize> = ctx.arg_u64("config").map(|v| v as usize);
    let distinct = Distinct::new(ctx.pick(28, 31));
    let direct = AtomicU64::new(0);
    let stats = DecStats::default();
    let per_cfg: Mutex<Vec<J>> = Mutex::new(Vec::new());
    let evals = AtomicU64::new(0);
    let rt_tot = Mutex::new((0u64, 0u64, 0u64));
    ev::par_ranges(prop, cfgs.len() as u64, 1, |_w, a, _b| {
        let ci = a as usize;
        if only.is_some_and(|o| o != ci) {
            return;
        }
        let cfg = cfgs[ci];
        let (m, full, n) = cfg;
        let mut worst: Worst<DecAt> = Worst::new();
        let mut rt = RtStats::default();
        let mut count = 0u64;
        triple_workload(ctx, ci, n, &distinct, &direct, |tri, _| {
            count += tri.len() as u64;
            decode_check::<u16>(ci, cfg, tri, &mut worst, &stats, if roundtrip { Some(&mut rt) } else { None });
            if n == 8 {
                count += tri.len() as u64;
                decode_check::<u8>(ci, cfg, tri, &mut worst, &stats, if roundtrip { Some(&mut rt) } else { None });
            }
        });
        evals.fetch_add(count, Relaxed);
        if !roundtrip {
            if !(worst.err <= TOL_C01) {
                if let Some(at) = worst.at {
                    ev::violation(
                        format!("C01|decode-accuracy|{m:?}|{}|n={n}", if full { "full" } else { "limited" }),
                        format!("|rgb - H.273| = {:.3e} > {TOL_C01:e}", worst.err),
                        dec_case(&cfgs, &at).set("err", worst.err),
                    );
                }
            }
            per_cfg.lock().unwrap().push(
                J::obj()
                    .set("matrix", format!("{m:?}"))
                    .set("full", full)
                    .set("n", n)
                    .set("triples", count)
                    .set("worst_abs_err", worst.err)
                    .set("argmax", worst.at.map(|a| dec_case(&cfgs, &a))),
            );
        } else {
            if let Some((ci2, u8s, t, p, got, exp)) = rt.first_bad {
                let (m2, f2, n2) = cfgs[ci2];
                ev::violation(
                    format!("C08|roundtrip|{m2:?}|{}|n={n2}", if f2 { "full" } else { "limited" }),
                    format!("{} samples changed; first: plane {p} came back {got}, expected {exp}", rt.bad),
                    J::obj()
                        .set("kind", "roundtrip")
                        .set("matrix", format!("{m2:?}"))
                        .set("full", f2)
                        .set("n", n2)
                        .set("u8", u8s)
                        .set("yuv", t)
                        .set("plane", p)
                        .set("got", got)
                        .set("expected", exp),
                );
            }
            let mut g = rt_tot.lock().unwrap();
            g.0 += rt.clamped;
            g.1 += rt.tolerated_0_to_1;
            g.2 += rt.bad;
            per_cfg.lock().unwrap().push(
                J::obj()
                    .set("matrix", format!("{m:?}"))
                    .set("full", full)
                    .set("n", n)
                    .set("triples", count)
                    .set("changed_samples", rt.bad)
                    .set("clamped_inputs", rt.clamped)
                    .set("tolerated_0_to_1", rt.tolerated_0_to_1),
            );
        }
    });
    let mut pc = per_cfg.into_inner().unwrap();
    pc.sort_by_key(|j| j.to_string());
    let worst_overall = pc.iter().filter_map(|j| j.get("worst_abs_err").and_then(J::as_f64)).fold(0.0f64, f64::max);
    ev::add_evals(evals.load(Relaxed));
    ev::add_nontrivial(direct.load(Relaxed) + distinct.count());
    ev::observe("configs", pc.len());
    if !roundtrip {
        ev::observe("worst_abs_err_overall", worst_overall);
        ev::observe("tolerance", TOL_C01);
    } else {
        let g = rt_tot.lock().unwrap();
        ev::observe("clamped_input_samples", g.0);
        ev::observe("tolerated_fullrange_chroma_0_to_1", g.1);
        ev::observe("changed_samples", g.2);
    }
    ev::observe("triples_with_clamped_luma", stats.clamped_luma.load(Relaxed));
    ev::observe("triples_with_clamped_chroma", stats.clamped_chroma.load(Relaxed));
    ev::observe("triples_out_of_rgb_gamut", stats.out_of_gamut.load(Relaxed));
    ev::observe("grey_triples", stats.grey.load(Relaxed));
    ev::observe("per_config", J::Arr(pc.clone()));
    for j in pc.iter().take(3) {
        ev::sample(j.clone());
    }
    ev::rule(
        "7 matrices x {limited,full} x n=8..16; N x 1 4:4:4 frames of code triples: all 2^24 triples at n=8 (u8 and u16 storage, \
         distinct by enumeration); n>=9: full sweep of each plane with the others at mid, boundary lattice {0,1,2,16k+-1,mid+-1,235k+-1,240k+-1,max-1,max}^3, \
         seeded random triples (thorough: 2^24 per config plus all Y x all U x 8 V at n<=10). non-trivial = at least one chroma code != 2^(n-1); \
         distinct counted exactly for the enumeration and by a hash bitset (lower bound) for the rest",
    );
    if only.is_none() {
        ev::exhaustive(false);
    }
}

/// C01 on images the library's own encoder produced (not wrapped by `Yuv::new`): RGB from [-0.5, 1.5]^3, so that the
/// codes include super-white, sub-black and out-of-gamut values; the decode is judged from the codes it was given.
fn decode_encoder_output(ctx: &Ctx) {
    let cfgs = configs();
    let n_img = AtomicU64::new(0);
    ev::par_ranges("C01", cfgs.len() as u64, 1, |_w, a, _b| {
        let ci = a as usize;
        let (m, full, n) = cfgs[ci];
        let mut rng = Rng::new(ctx.seed, 0xE0C0_0000 + a);
        let npx = if ctx.flag("lite") { 512 } else { 4099 };
        let px: Vec<[f32; 3]> = (0..npx).map(|i| if i % 4 == 0 { [rng.range(-0.5, 1.5) as f32, rng.range(-0.5, 1.5) as f32, rng.range(-0.5, 1.5) as f32] } else { [rng.unit() as f32 * 1.2 - 0.1, rng.unit() as f32 * 1.2 - 0.1, rng.unit() as f32 * 1.2 - 0.1] }).collect();
        let cfg = cfg444(m, full, n);
        let rgb = Rgb::new(px, npx, 1, TC::BT1886, CP::BT709).expect("len");
        let mut w = Worst::new();
        macro_rules! one {
            ($t:ty) => {{
                let enc: Result<Yuv<$t>, _> = if ci % 2 == 0 { Yuv::try_from((&rgb, cfg)) } else { Yuv::try_from((rgb.clone(), cfg)) };
                if let Ok(yuv) = enc {
                    if let Ok(dec) = Rgb::try_from(&yuv) {
                        n_img.fetch_add(1, Relaxed);
                        for i in 0..npx.min(dec.data().len()) {
                            let t = [u32::cast_from(yuv.data()[0].p(i, 0)), u32::cast_from(yuv.data()[1].p(i, 0)), u32::cast_from(yuv.data()[2].p(i, 0))];
                            let want = ypbpr_to_rgb(m, normalise(t, n as u32, full));
                            for c in 0..3 {
                                w.upd((dec.data()[i][c] as f64 - want[c]).abs(), (t, c, dec.data()[i][c], want[c]));
                            }
                        }
                    }
                }
            }};
        }
        one!(u16);
        if n == 8 {
            one!(u8);
        }
        if !(w.err <= TOL_C01) {
            if let Some((t, c, got, want)) = w.at {
                ev::violation(
                    format!("C01|decode-accuracy|encoder-output|{m:?}|{}|n={n}", if full { "full" } else { "limited" }),
                    format!("decoding an image produced by the library's encoder: codes {t:?} component {c} decode to {got:e}, H.273 gives {want:e}"),
                    J::obj().set("kind", "decode").set("matrix", format!("{m:?}")).set("full", full).set("n", n).set("u8", false).set("yuv", t).set("note", "the image was produced by Yuv::try_from((Rgb, cfg)), not by Yuv::new"),
                );
            }
        }
    });
    ev::observe("decoded_encoder_outputs", n_img.load(Relaxed));
    ev::add_evals(n_img.load(Relaxed) * 512);
}

pub fn c01(ctx: &Ctx) {
    run_decode(ctx, "C01", false);
    layout_stratum(ctx, false);
    decode_encoder_output(ctx);
}
pub fn c08(ctx: &Ctx) {
    run_decode(ctx, "C08", true);
    layout_stratum(ctx, true);
}

/// The triple workloads use N x 1 frames. This stratum decodes multi-row frames with real strides,
/// paddings that differ between the planes and every subsampling, against the same oracle
/// (pixel (x,y) takes the chroma sample at (x>>ss_x, y>>ss_y)); C08: 4:4:4 only, exact round trip.
fn layout_stratum(ctx: &Ctx, roundtrip: bool) {
    let cfgs = configs();
    // (an entry p pads both axes by p; 100+k pads x only, 200+k pads y only)
    let pads: [(usize, usize, usize); 6] = [(0, 0, 0), (0, 0, 17), (0, 17, 0), (5, 32, 1), (108, 101, 132), (208, 108, 200)];
    let sss: [(u8, u8); 6] = [(0, 0), (1, 0), (1, 1), (0, 1), (2, 0), (2, 2)];
    let worst = Mutex::new(Worst::<(usize, (u8, u8), (usize, usize, usize), usize, usize)>::new());
    let frames = AtomicU64::new(0);
    let pixels = AtomicU64::new(0);
    let prop = if roundtrip { "C08" } else { "C01" };
    ev::par_ranges(prop, cfgs.len() as u64, 1, |_w, a, _b| {
        let ci = a as usize;
        let (m, full, n) = cfgs[ci];
        let mut rng = Rng::new(ctx.seed, 0x1A70_0000 + a);
        let maxc = 1u64 << n;
        let mut lw = Worst::new();
        for (ssi, ss) in sss.into_iter().enumerate() {
            if roundtrip && ss != (0, 0) {
                continue;
            }
            for (pi, pad) in pads.into_iter().enumerate() {
                // sizes: 36x8; chroma planes of a single column / a single row; video-like sizes (many rows per "strip",
                // odd numbers of rows per 16K samples); frames wider than 65536 and wider than 5461 with several chroma rows
                let pick = (ssi * 5 + pi * 3 + ci) % 8;
                let (w, h) = match pick {
                    0 => (1usize << ss.0, 8usize),
                    1 => (36, 1usize << ss.1),
                    2 => [(176usize, 24usize), (640, 52), (960, 36), (1440, 24)][ci % 4],
                    3 if !ctx.flag("lite") => (70_004, 2usize << ss.1),
                    4 => (6_004, 4usize << ss.1),
                    _ => (36, 8),
                };
                let cfg = YuvConfig { subsampling_x: ss.0, subsampling_y: ss.1, ..cfg444(m, full, n) };
                let mut r2 = rng.clone();
                // content scenarios: random; constant chroma planes (128 is what Plane::new fills buffers with);
                // letterbox (whole rows of nominal black with neutral chroma between coloured rows)
                let scenario = (ssi + 2 * pi + ci / 3) % 4;
                let mid = 1u32 << (n - 1);
                let black = if full { 0 } else { 16u32 << (n - 8) };
                let cconst = [128u32, 0, (maxc - 1) as u32, mid, mid + 1][(ci + pi) % 5];
                let bh = 1usize << ss.1;
                let f: Frame<u16> = mk_frame(w, h, ss, 0, |p, _x, y| {
                    let v = r2.below(maxc) as u32;
                    match scenario {
                        1 if p > 0 => cconst,
                        2 => {
                            // luma rows [bh, 2*bh) and the last block of rows are black bars; chroma row 1 and the last are neutral
                            let (ly, rows) = if p == 0 { (y / bh, h / bh) } else { (y, h / bh) };
                            if rows >= 3 && (ly == 1 || ly == rows - 1) {
                                if p == 0 { black } else { mid }
                            } else {
                                v
                            }
                        }
                        _ => v,
                    }
                });
                rng.next();
                // rebuild with the requested per-plane paddings, same visible samples
                let (cw, ch) = (w >> ss.0, h >> ss.1);
                let mut g: Frame<u16> = Frame {
                    planes: [
                        Plane::new(w, h, 0, 0, crate::frames::xypad(pad.0).0, crate::frames::xypad(pad.0).1),
                        Plane::new(cw, ch, ss.0 as usize, ss.1 as usize, crate::frames::xypad(pad.1).0, crate::frames::xypad(pad.1).1),
                        Plane::new(cw, ch, ss.0 as usize, ss.1 as usize, crate::frames::xypad(pad.2).0, crate::frames::xypad(pad.2).1),
                    ],
                };
                for p in 0..3 {
                    let (pw, ph) = if p == 0 { (w, h) } else { (cw, ch) };
                    for v in g.planes[p].data.iter_mut() {
                        *v = r2.below(maxc) as u16;
                    }
                    // for half of the configs the visible area is moved inside the padding by hand (a cropped view:
                    // odd origins, which Plane::new itself never produces)
                    let padp = { let q = crate::frames::xypad([pad.0, pad.1, pad.2][p]); q.0.min(q.1) };
                    if ci % 2 == 0 && padp >= 1 {
                        g.planes[p].cfg.xorigin += if padp >= 5 { 3 } else { 1 };
                        g.planes[p].cfg.yorigin += 1;
                    }
                    let stride = g.planes[p].cfg.stride;
                    let d = g.planes[p].data_origin_mut();
                    for y in 0..ph {
                        for x in 0..pw {
                            d[y * stride + x] = f.planes[p].p(x, y);
                        }
                    }
                }
                if scenario == 3 {
                    g.planes[0].cfg.xdec = ss.0 as usize;
                    g.planes[0].cfg.ydec = ss.1 as usize;
                }
                let Ok(yuv) = Yuv::new(g, cfg) else {
                    ev::violation(format!("{prop}|layout|frame-rejected"), format!("well-formed {w}x{h} frame rejected ({ss:?}, pads {pad:?})"), J::Null);
                    continue;
                };
                let Ok(rgb) = Rgb::try_from(&yuv) else {
                    ev::violation(format!("{prop}|layout|decode-error|{m:?}"), "decode failed".to_string(), J::Null);
                    continue;
                };
                frames.fetch_add(1, Relaxed);
                pixels.fetch_add((w * h) as u64, Relaxed);
                if !roundtrip {
                    for y in 0..h {
                        for x in 0..w {
                            let t = [f.planes[0].p(x, y) as u32, f.planes[1].p(x >> ss.0, y >> ss.1) as u32, f.planes[2].p(x >> ss.0, y >> ss.1) as u32];
                            let want = ypbpr_to_rgb(m, normalise(t, n as u32, full));
                            let got = rgb.data()[y * w + x];
                            for c in 0..3 {
                                lw.upd((got[c] as f64 - want[c]).abs(), (ci, ss, pad, x, y));
                            }
                        }
                    }
                } else if let Ok(back) = Yuv::<u16>::try_from((&rgb, cfg)) {
                    let k = 1u16 << (n - 8);
                    'o: for p in 0..3 {
                        for y in 0..h {
                            for x in 0..w {
                                let orig = f.planes[p].p(x, y);
                                let exp = if full { orig } else { orig.clamp(16 * k, if p == 0 { 235 * k } else { 240 * k }) };
                                let got = back.data()[p].p(x, y);
                                if got != exp && !(full && p > 0 && orig == 0 && got == 1) {
                                    ev::violation(
                                        format!("C08|layout-roundtrip|{m:?}|{}|n={n}", if full { "full" } else { "limited" }),
                                        format!("{w}x{h} frame with plane paddings {pad:?}: plane {p} sample ({x},{y}) = {orig} came back {got}"),
                                        J::obj().set("kind", "layout").set("matrix", format!("{m:?}")).set("full", full).set("n", n).set("pad", [pad.0, pad.1, pad.2]).set("plane", p).set("x", x).set("y", y),
                                    );
                                    break 'o;
                                }
                            }
                        }
                    }
                }
            }
        }
        if !roundtrip && !(lw.err <= TOL_C01) {
            if let Some((_, ss, pad, x, y)) = lw.at {
                ev::violation(
                    format!("C01|layout-decode|{m:?}|{}|n={n}", if full { "full" } else { "limited" }),
                    format!("multi-row frame (36x8, 1-chroma-column/row, video-like or very wide; random, constant-chroma, letterbox or luma-tagged content), subsampling {ss:?}, plane paddings {pad:?}: pixel ({x},{y}) is {:.3e} from the H.273 value of its (Y, U(x>>ss_x,y>>ss_y), V(..)) samples", lw.err),
                    J::obj().set("kind", "layout").set("matrix", format!("{m:?}")).set("full", full).set("n", n).set("ss", [ss.0, ss.1]).set("pad", [pad.0, pad.1, pad.2]).set("x", x).set("y", y),
                );
            }
        }
        worst.lock().unwrap().merge(&lw);
    });
    // one thread, all configs in several seed-shuffled orders: a decode must not depend on what was decoded before it
    if !roundtrip {
        let mut rng = Rng::new(ctx.seed, 0x5E0_0001);
        let mut seq_evals = 0u64;
        for pass in 0..3 {
            let mut order: Vec<usize> = (0..cfgs.len()).collect();
            for i in (1..order.len()).rev() {
                order.swap(i, rng.below(i as u64 + 1) as usize);
            }
            if pass == 0 {
                // depth-major: consecutive decodes share depth and range but not the matrix
                order.sort_by_key(|i| (cfgs[*i].2, cfgs[*i].1));
            }
            for ci in order {
                let (m, full, n) = cfgs[ci];
                let maxc = 1u64 << n;
                let tri: Vec<[u32; 3]> = (0..24).map(|_| [rng.below(maxc) as u32, rng.below(maxc) as u32, rng.below(maxc) as u32]).collect();
                let mut w = Worst::new();
                let st = DecStats::default();
                decode_check::<u16>(ci, (m, full, n), &tri, &mut w, &st, None);
                if n == 8 {
                    decode_check::<u8>(ci, (m, full, n), &tri, &mut w, &st, None);
                }
                seq_evals += tri.len() as u64;
                if !(w.err <= TOL_C01) {
                    if let Some(at) = w.at {
                        ev::violation(
                            format!("C01|decode-accuracy|sequence|{m:?}|{}|n={n}", if full { "full" } else { "limited" }),
                            format!("decoding configs one after another on one thread (pass {pass}): |rgb - H.273| = {:.3e}", w.err),
                            dec_case(&cfgs, &at).set("err", w.err).set("note", "depends on the preceding decodes: re-run the check with the same seed"),
                        );
                    }
                }
            }
        }
        if !ctx.flag("lite") {
            seq_evals += many_switches(&cfgs, false);
        }
        ev::observe("sequential_order_passes", 3);
        ev::add_evals(seq_evals);
    }
    // C08: transcode sequences on one thread: decode(A) -> encode(B) -> decode(B) -> encode(B) must reproduce the B image
    if roundtrip {
        let mut rng = Rng::new(ctx.seed, 0x5E0_0008);
        let mut seq = 0u64;
        let rounds = if ctx.flag("lite") { 200 } else { ctx.pick(2000, 20000) };
        for _ in 0..rounds {
            let (ma, fa, na) = cfgs[rng.below(cfgs.len() as u64) as usize];
            // B shares the depth (so that the same storage type applies) but differs in matrix and/or range
            let (mb, fb) = (rng.pick(&MATRICES), rng.coin());
            let maxc = 1u64 << na;
            let tri: Vec<[u32; 3]> = (0..7).map(|_| [rng.below(maxc) as u32, rng.below(maxc) as u32, rng.below(maxc) as u32]).collect();
            let ya: Yuv<u16> = mk_yuv(&tri, cfg444(ma, fa, na));
            let cb = cfg444(mb, fb, na);
            let Ok(rgb_a) = Rgb::try_from(&ya) else { continue };
            let Ok(yb) = Yuv::<u16>::try_from((&rgb_a, cb)) else { continue };
            let Ok(rgb_b) = Rgb::try_from(&yb) else { continue };
            let Ok(yb2) = Yuv::<u16>::try_from((&rgb_b, cb)) else { continue };
            seq += 1;
            let k = 1u16 << (na - 8);
            for p in 0..3 {
                for i in 0..tri.len() {
                    let orig = yb.data()[p].p(i, 0);
                    // yb holds only codes the encoder produced; limited-range codes outside the legal range cannot occur in it
                    let exp = if fb { orig } else { orig.clamp(16 * k, if p == 0 { 235 * k } else { 240 * k }) };
                    let got = yb2.data()[p].p(i, 0);
                    if got != exp && !(fb && p > 0 && orig == 0 && got == 1) {
                        ev::violation(
                            format!("C08|transcode-sequence|{mb:?}|{}|n={na}", if fb { "full" } else { "limited" }),
                            format!("after decoding a {ma:?} image and encoding it as {mb:?}, the {mb:?} image does not survive its own round trip: plane {p} sample {orig} came back {got}"),
                            J::obj().set("kind", "transcode").set("from", format!("{ma:?}")).set("to", format!("{mb:?}")).set("n", na).set("note", "sequence-dependent: re-run the check with the same seed"),
                        );
                    }
                }
            }
        }
        ev::observe("transcode_sequences", seq);
        ev::add_evals(seq * 21);
        if !ctx.flag("lite") {
            let n = many_switches(&cfgs, true);
            ev::add_evals(n);
        }
    }
    ev::observe("layout_stratum_frames", frames.load(Relaxed));
    ev::observe("layout_stratum_pixels", pixels.load(Relaxed));
    if !roundtrip {
        ev::observe("layout_stratum_worst_abs_err", worst.lock().unwrap().err);
    }
    ev::add_evals(pixels.load(Relaxed));
}

/// 140,000 tiny 8-bit decodes (C08: decode + re-encode) on one thread, the range flipping at every call and the
/// matrix rotating slowly. Four reserved code values are used at call 0 and then left alone until call 255, 257,
/// 65,535 and 65,537 respectively (each lands in the other range than call 0), so that per-thread state that is
/// stamped with a small wrapping counter is observable; all other codes are revisited at irregular distances.
fn many_switches(cfgs: &[(MC, bool, u8)], roundtrip: bool) -> u64 {
    let switches = 140_000usize;
    const RESERVED: [(usize, u32); 4] = [(255, 201), (257, 203), (65_535, 205), (65_537, 207)];
    let avoid = |v: u32| if RESERVED.iter().any(|(_, r)| *r == v) { v + 1 } else { v };
    let mut evals = 0u64;
    let mut rt = RtStats::default();
    for k in 0..switches {
        let (m, full) = (MATRICES[(k / 2) % 7], k % 2 == 1);
        let Some(ci) = cfgs.iter().position(|c| *c == (m, full, 8)) else { continue };
        let c = (k / 257 % 256) as u32;
        let mut tri = vec![[avoid(c), avoid(255 - c), avoid((c * 7 + 3) % 256)], [avoid((k % 256) as u32), 128, 64], [200, avoid(c), avoid(c)]];
        if k == 0 {
            tri = vec![[201, 203, 205], [203, 205, 207], [205, 207, 201], [207, 201, 203]];
        }
        if let Some((_, r)) = RESERVED.iter().find(|(at, _)| *at == k) {
            tri[1] = [*r, *r, *r];
        }
        let mut w = Worst::new();
        let st = DecStats::default();
        decode_check_one::<u8>(ci, (m, full, 8), &tri, &mut w, &st, if roundtrip { Some(&mut rt) } else { None });
        evals += tri.len() as u64;
        if !roundtrip && !(w.err <= TOL_C01) {
            if let Some(at) = w.at {
                ev::violation(
                    format!("C01|decode-accuracy|after-many-config-switches|{m:?}|{}", if full { "full" } else { "limited" }),
                    format!("after {k} alternating 8-bit decodes on one thread: |rgb - H.273| = {:.3e}", w.err),
                    dec_case(cfgs, &at).set("err", w.err).set("switches", k),
                );
                break;
            }
        }
        if roundtrip {
            if let Some((ci2, u8s, t, p, got, exp)) = rt.first_bad {
                let (m2, f2, n2) = cfgs[ci2];
                ev::violation(
                    format!("C08|roundtrip|after-many-config-switches|{m2:?}|{}", if f2 { "full" } else { "limited" }),
                    format!("after {k} alternating 8-bit round trips on one thread: plane {p} of {t:?} came back {got}, expected {exp}"),
                    J::obj().set("kind", "roundtrip").set("matrix", format!("{m2:?}")).set("full", f2).set("n", n2).set("u8", u8s).set("yuv", t).set("plane", p).set("got", got).set("expected", exp).set("switches", k),
                );
                break;
            }
        }
    }
    ev::observe("single_thread_config_switches", switches);
    evals
}

// ------------------------------------------------------------------ C02
#[derive(Clone, Copy)]
struct EncAt {
    cfg: usize,
    u8s: bool,
    px: [f32; 3],
    plane: usize,
    got: u32,
    ideal: f64,
}

/// a code whose k+0.5 boundary is targeted: uniformly random, or (1 in 3) one of the first / last
/// few codes, plus a uniformly random sub-code offset so that the whole first and last code
/// intervals are covered, not only their rounding boundaries
fn end_code(rng: &mut Rng, nn: u32) -> f64 {
    let max = (1u64 << nn) - 1;
    if rng.below(3) == 0 {
        let k = rng.below(4);
        let base = if rng.coin() { k as f64 - 1.0 } else { (max - k) as f64 };
        if rng.coin() {
            base + rng.unit() - 0.5
        } else {
            base
        }
    } else {
        rng.below(1 << nn) as f64
    }
}

fn enc_inputs(rng: &mut Rng, m: MC, full: bool, n: u8, count: usize, every_k: bool) -> (Vec<[f32; 3]>, [u64; 6]) {
    let nn = n as u32;
    let k = (1u32 << (n - 8)) as f64;
    let maxv = ((1u64 << nn) - 1) as f64;
    let half = (1u64 << (nn - 1)) as f64;
    let (ys, yo, cs, co) = if full { (maxv, 0.0, maxv, half) } else { (219.0 * k, 16.0 * k, 224.0 * k, 128.0 * k) };
    let mut out = Vec::with_capacity(count + 600);
    let mut strata = [0u64; 6];
    let deltas = [1e-3, 3e-4, 1e-4, 1e-5, 1e-6, 0.0];
    let _ = m;
    let push_boundary = |out: &mut Vec<[f32; 3]>, rng: &mut Rng, code: f64, which: u64| {
        let d = rng.pick(&deltas) * if rng.coin() { 1.0 } else { -1.0 };
        let target = code + 0.5 + d;
        match which {
            0 => {
                // luma boundary on a grey
                let v = ((target - yo) / ys) as f32;
                // also nudge by a few ulps
                let v = f32::from_bits((v.to_bits() as i64 + rng.below(5) as i64 - 2).max(0) as u32);
                out.push([v, v, v]);
            }
            c => {
                // chroma boundary: bump one channel by d over a grey g -> chroma = d/2
                let g = rng.range(0.2, 0.8);
                let dd = 2.0 * (target - co) / cs;
                let mut p = [g, g, g];
                // for Kr/Kb matrices: B bump -> Cb, R bump -> Cr; YCgCo: G bump -> Cg, R bump -> Co (with B lowered)
                let ch = if c == 1 { 2 } else { 0 };
                p[ch] = g + dd;
                out.push([p[0] as f32, p[1] as f32, p[2] as f32]);
            }
        }
    };
    // every code k at low depth (luma boundary k+0.5)
    if every_k {
        for code in 0..(1u32 << nn.min(10)) {
            let code = if nn <= 10 { code as f64 } else { rng.below(1 << nn) as f64 };
            push_boundary(&mut out, rng, code, 0);
            strata[0] += 1;
        }
    }
    for i in 0..count {
        match i % 8 {
            0 => {
                let code = end_code(rng, nn);
                push_boundary(&mut out, rng, code, 0);
                strata[0] += 1;
            }
            1 => {
                let code = end_code(rng, nn);
                let which = 1 + rng.below(2);
                push_boundary(&mut out, rng, code, which);
                strata[1] += 1;
            }
            2 => {
                // cube corners / faces / edges of [-0.5,1.5] and [0,1]
                let vals = [-0.5f32, 0.0, 1.0, 1.5];
                let mut p = [rng.pick(&vals), rng.pick(&vals), rng.pick(&vals)];
                if rng.coin() {
                    p[rng.below(3) as usize] = rng.range(-0.5, 1.5) as f32;
                }
                out.push(p);
                strata[2] += 1;
            }
            3 => {
                // one ulp inside/outside 0, 1, and the range ends; subnormals and signed zero
                let anchors = [0.0f32, 1.0, -0.5, 1.5, 0.5];
                let mut p = [0f32; 3];
                for c in 0..3 {
                    let a = rng.pick(&anchors);
                    let off = rng.below(5) as i64 - 2;
                    let v = if a == 0.0 {
                        match rng.below(6) {
                            0 => 0.0,
                            1 => -0.0,
                            2 => f32::from_bits(1),
                            3 => -f32::from_bits(1),
                            4 => f32::MIN_POSITIVE,
                            _ => 1e-40,
                        }
                    } else {
                        f32::from_bits((a.to_bits() as i64 + off) as u32)
                    };
                    p[c] = v.clamp(-0.5, 1.5);
                }
                out.push(p);
                strata[3] += 1;
            }
            4 => {
                if i % 16 == 4 {
                    // almost-neutral pixels: a grey with perturbations of 1e-7 .. 1e-3 (chroma within a few codes of mid)
                    let g = rng.unit();
                    let s = 10f64.powf(-3.0 - 4.0 * rng.unit());
                    out.push([g as f32, (g + (rng.unit() - 0.5) * s) as f32, (g + (rng.unit() - 0.5) * s) as f32]);
                } else if i % 16 == 12 {
                    out.push(crate::gen::related_px(rng, 1.0));
                } else {
                    out.push([rng.unit() as f32, rng.unit() as f32, rng.unit() as f32]);
                }
                strata[4] += 1;
            }
            _ => {
                out.push([rng.range(-0.5, 1.5) as f32, rng.range(-0.5, 1.5) as f32, rng.range(-0.5, 1.5) as f32]);
                strata[5] += 1;
            }
        }
    }
    for p in out.iter_mut() {
        for c in p.iter_mut() {
            if !(*c >= -0.5 && *c <= 1.5) {
                *c = c.clamp(-0.5, 1.5);
            }
        }
    }
    (out, strata)
}

struct EncAcc {
    worst: Worst<EncAt>,
    hist: [u64; 12],
    clamp_lo: [u64; 3],
    clamp_hi: [u64; 3],
    inrange: [u64; 3],
}

fn encode_check<T: Pixel>(ci: usize, (m, full, n): (MC, bool, u8), px: &[[f32; 3]], acc: &mut EncAcc) {
    let u8s = std::mem::size_of::<T>() == 1;
    let len = px.len();
    // the encoder uses only matrix, range and depth: the transfer / primaries labels of the request (which the
    // output must carry verbatim) and of the source image rotate through all supported values
    let rot = ci * 5 + len;
    let cfg = YuvConfig { transfer_characteristics: TRANSFERS[rot % 14], color_primaries: PRIMARIES[(rot / 14 + ci) % 11], ..cfg444(m, full, n) };
    let case0 = || J::obj().set("kind", "encode").set("matrix", format!("{m:?}")).set("full", full).set("n", n).set("u8", u8s).set("rgb", px_json(px[0]));
    let (st, sp) = (TRANSFERS[(rot / 3) % 14], PRIMARIES[(rot / 5) % 11]);
    // three ways to hand the image over: a fresh image by reference, by value, and an image that was built with
    // other (grey) content and then overwritten in place through data_mut()
    let entry = (ci + len) % 3;
    let rgb = if entry == 2 {
        let mut r = Rgb::new(vec![[0.5f32; 3]; len], len, 1, st, sp).expect("len matches");
        r.data_mut().copy_from_slice(px);
        r
    } else {
        Rgb::new(px.to_vec(), len, 1, st, sp).expect("len matches")
    };
    let res = if entry == 1 { Yuv::try_from((rgb.clone(), cfg)) } else { Yuv::try_from((&rgb, cfg)) };
    let yuv: Yuv<T> = match res {
        Ok(y) => y,
        Err(e) => {
            ev::violation(format!("C02|encode-error|{m:?}"), format!("Yuv::try_from(({}Rgb,cfg)) failed: {e:?}", if entry == 1 { "" } else { "&" }), case0());
            return;
        }
    };
    if yuv.config() != cfg || yuv.width() != len || yuv.height() != 1 || yuv.data().iter().any(|p| p.cfg.width != len || p.cfg.height != 1) {
        ev::violation(
            format!("C02|config-or-dims|{m:?}"),
            format!("output config {:?} dims {}x{}; requested {:?} {}x1", yuv.config(), yuv.width(), yuv.height(), cfg, len),
            case0(),
        );
        return;
    }
    let maxv = ((1u64 << n) - 1) as f64;
    let slack = 1e-6 * (1u64 << n) as f64;
    for (i, p) in px.iter().enumerate() {
        let ideal = quantise_ideal(rgb_to_ypbpr(m, px64(*p)), n as u32, full);
        for c in 0..3 {
            let got = u32::cast_from(yuv.data()[c].p(i, 0));
            let cl = ideal[c].clamp(0.0, maxv);
            if ideal[c] < 0.0 {
                acc.clamp_lo[c] += 1;
            } else if ideal[c] > maxv {
                acc.clamp_hi[c] += 1;
            } else {
                acc.inrange[c] += 1;
            }
            let d = (got as f64 - cl).abs();
            let bin = ((d / 0.05) as usize).min(11);
            acc.hist[bin] += 1;
            // error in units of the allowed slack beyond half a code
            let e = (d - 0.5) / slack;
            acc.worst.upd(if d.is_nan() { f64::NAN } else { e }, EncAt { cfg: ci, u8s, px: *p, plane: c, got, ideal: ideal[c] });
        }
    }
}

pub fn c02(ctx: &Ctx) {
    let cfgs = configs();
    let per_cfg: Mutex<Vec<J>> = Mutex::new(Vec::new());
    let count: usize = ctx.arg_u64("pixels").unwrap_or(if ctx.flag("lite") { 1 << 14 } else { ctx.pick(1 << 19, 1 << 22) }) as usize;
    let distinct = Distinct::new(ctx.pick(27, 31));
    let evals = AtomicU64::new(0);
    let tot = Mutex::new(([0u64; 12], [0u64; 3], [0u64; 3], [0u64; 3], [0u64; 6]));
    let rounds: u64 = if ctx.flag("lite") { 1 } else { ctx.pick(1, 16) };
    ev::par_ranges("C02", cfgs.len() as u64 * rounds, 1, |_w, a, _b| {
        let ci = (a / rounds) as usize;
        let round = a % rounds;
        let cfg = cfgs[ci];
        let (m, full, n) = cfg;
        let mut rng = Rng::new(ctx.seed, 0x0C02_0000 + a);
        let (px, strata) = enc_inputs(&mut rng, m, full, n, count, round == 0);
        for p in &px {
            distinct.insert(hash_mix(ci as u64, crate::gen::hash_px(*p)));
        }
        let mut acc = EncAcc { worst: Worst::new(), hist: [0; 12], clamp_lo: [0; 3], clamp_hi: [0; 3], inrange: [0; 3] };
        // two image shapes: a width that is a multiple of 64 (plane stride == width, no row padding) and an odd width
        let a_len = (px.len() / 2) & !63;
        let (pa, pb) = px.split_at(a_len);
        let pb = if pb.len() % 2 == 0 { &pb[1..] } else { pb };
        let mut n_evals = 0u64;
        for part in [pa, pb] {
            if part.is_empty() {
                continue;
            }
            encode_check::<u16>(ci, cfg, part, &mut acc);
            n_evals += part.len() as u64;
            if n == 8 {
                encode_check::<u8>(ci, cfg, part, &mut acc);
                n_evals += part.len() as u64;
            }
        }
        // every (transfer, primaries) label pair on a 3-pixel image: the output carries exactly the requested
        // config and the same samples whatever the labels say
        if round == 0 {
            let probe = [px[0], px[px.len() / 2], [0.25, 0.5, 0.75]];
            let rgb = Rgb::new(probe.to_vec(), 3, 1, TC::SRGB, CP::BT709).expect("len");
            let mut first: Option<Vec<u32>> = None;
            for t in TRANSFERS {
                for p in PRIMARIES {
                    let c = YuvConfig { transfer_characteristics: t, color_primaries: p, ..cfg444(m, full, n) };
                    n_evals += 3;
                    match Yuv::<u16>::try_from((&rgb, c)) {
                        Err(e) => ev::violation(format!("C02|encode-error|{m:?}"), format!("{e:?} for labels ({t:?}, {p:?})"), J::obj().set("kind", "encode-labels").set("matrix", format!("{m:?}")).set("full", full).set("n", n).set("transfer", format!("{t:?}")).set("primaries", format!("{p:?}"))),
                        Ok(y) => {
                            if y.config() != c {
                                ev::violation(
                                    format!("C02|config-or-dims|labels|{m:?}"),
                                    format!("requested config {c:?}, output carries {:?}", y.config()),
                                    J::obj().set("kind", "encode-labels").set("matrix", format!("{m:?}")).set("full", full).set("n", n).set("transfer", format!("{t:?}")).set("primaries", format!("{p:?}")),
                                );
                            }
                            let codes: Vec<u32> = (0..3).flat_map(|pl| (0..3).map(move |i| (pl, i))).map(|(pl, i)| y.data()[pl].p(i, 0) as u32).collect();
                            match &first {
                                None => first = Some(codes),
                                Some(f) if *f != codes => ev::violation(
                                    format!("C02|labels-change-samples|{m:?}"),
                                    format!("the same pixels encode to {codes:?} with labels ({t:?}, {p:?}) but to {f:?} with the first label pair"),
                                    J::obj().set("kind", "encode-labels").set("matrix", format!("{m:?}")).set("full", full).set("n", n).set("transfer", format!("{t:?}")).set("primaries", format!("{p:?}")),
                                ),
                                _ => {}
                            }
                        }
                    }
                }
            }
        }
        // other contexts for the same pixels: images of 1..7 pixels, and reversed with every pixel doubled
        {
            let (mut i, mut len) = (0usize, 1usize);
            while i + len <= px.len().min(1024) {
                encode_check::<u16>(ci, cfg, &px[i..i + len], &mut acc);
                n_evals += len as u64;
                i += len;
                len = len % 7 + 1;
            }
            let mut v = Vec::with_capacity(2048);
            for p in px.iter().rev().take(1024) {
                v.push(*p);
                v.push(*p);
            }
            encode_check::<u16>(ci, cfg, &v, &mut acc);
            n_evals += v.len() as u64;
        }
        evals.fetch_add(n_evals, Relaxed);
        if !(acc.worst.err <= 1.0) {
            if let Some(at) = acc.worst.at {
                ev::violation(
                    format!("C02|rounding|{m:?}|{}|n={n}", if full { "full" } else { "limited" }),
                    format!("code {} vs ideal {:.6}: |code-clamp(ideal)| exceeds 0.5 by {:.3} x the allowed 1e-6*2^n", at.got, at.ideal, acc.worst.err),
                    J::obj()
                        .set("kind", "encode")
                        .set("matrix", format!("{m:?}"))
                        .set("full", full)
                        .set("n", n)
                        .set("u8", at.u8s)
                        .set("rgb", px_json(at.px))
                        .set("plane", at.plane)
                        .set("got", at.got)
                        .set("ideal", at.ideal),
                );
            }
        }
        let mut g = tot.lock().unwrap();
        for i in 0..12 {
            g.0[i] += acc.hist[i];
        }
        for i in 0..3 {
            g.1[i] += acc.clamp_lo[i];
            g.2[i] += acc.inrange[i];
            g.3[i] += acc.clamp_hi[i];
        }
        for i in 0..6 {
            g.4[i] += strata[i];
        }
        per_cfg.lock().unwrap().push(
            J::obj()
                .set("matrix", format!("{m:?}"))
                .set("full", full)
                .set("n", n)
                .set("round", round)
                .set("pixels", px.len())
                .set("worst_excess_over_half_code_in_units_of_slack", acc.worst.err)
                .set(
                    "argmax",
                    acc.worst.at.map(|at| J::obj().set("rgb", px_json(at.px)).set("plane", at.plane).set("got", at.got).set("ideal", at.ideal)),
                ),
        );
    });
    // images without pixels keep the requested dimensions and config
    for (w, h) in [(0usize, 0usize), (0, 1), (0, 8), (0, 1080), (1, 0), (6, 0), (1920, 0)] {
        for ss in [(0u8, 0u8), (1, 0), (1, 1)] {
            if w % (1 << ss.0) != 0 || h % (1 << ss.1) != 0 {
                continue;
            }
            let (m, full, n) = cfgs[(w + h + ss.0 as usize) % cfgs.len()];
            let cfg = YuvConfig { subsampling_x: ss.0, subsampling_y: ss.1, ..cfg444(m, full, n) };
            let rgb = Rgb::new(Vec::new(), w, h, TC::SRGB, CP::BT709).expect("0 pixels");
            let outs: [Result<(usize, usize, YuvConfig), String>; 2] = [
                ev::guarded(|| Yuv::<u8>::try_from((&rgb, YuvConfig { bit_depth: 8, ..cfg })).map(|y| (y.width(), y.height(), y.config()))).and_then(|r| r.map_err(|e| format!("{e:?}"))),
                ev::guarded(|| Yuv::<u16>::try_from((rgb.clone(), cfg)).map(|y| (y.width(), y.height(), y.config()))).and_then(|r| r.map_err(|e| format!("{e:?}"))),
            ];
            for (k, o) in outs.into_iter().enumerate() {
                let want_cfg = if k == 0 { YuvConfig { bit_depth: 8, ..cfg } } else { cfg };
                evals.fetch_add(1, Relaxed);
                if o != Ok((w, h, want_cfg)) {
                    ev::violation(
                        format!("C02|config-or-dims|no-pixels|{m:?}"),
                        format!("encoding a {w}x{h} image (subsampling {ss:?}) gives {o:?}; requested {w}x{h} {want_cfg:?}"),
                        J::obj().set("kind", "encode-empty").set("w", w).set("h", h).set("ss", [ss.0, ss.1]),
                    );
                }
            }
        }
    }
    // subsampled, multi-row frames of video-like heights (the N x 1 images above cannot show how rows and chroma
    // rows are distributed): every luma code is the nearest code of its pixel, every chroma code the nearest code of
    // one of the pixels of its block
    {
        let heights: [usize; 10] = [720, 360, 540, 1080, 516, 288, 1200, 900, 68, 2160];
        let sss: [(u8, u8); 5] = [(1, 1), (0, 1), (1, 0), (2, 2), (1, 1)];
        let nfr = AtomicU64::new(0);
        ev::par_ranges("C02", cfgs.len() as u64, 1, |_w, a, _b| {
            let ci = a as usize;
            if ctx.flag("lite") && ci % 9 != (ctx.seed % 9) as usize {
                return;
            }
            let (m, full, n) = cfgs[ci];
            let mut rng = Rng::new(ctx.seed, 0x0C02_5B5B + a);
            let nh = if ctx.tier == crate::Tier::Thorough { 10 } else { 9 };
            // variant 0: random 128-wide frames of video-like heights; variants 1..: wide frames (wider than any plausible
            // block size, not a multiple of it) of few rows whose rows repeat the row above them entirely or in their left
            // part only (horizontal ramps, vertical bars, a flat side bar next to changing content)
            let wides: [usize; 8] = [600, 720, 516, 1028, 1300, 1920, 264, 4100]; // multiples of 4 (every subsampling divides them)
            for variant in 0..3usize {
            let (w, h, ss) = if variant == 0 {
                (128usize, heights[(ci + ctx.seed as usize) % nh], sss[(ci / 3) % 5])
            } else {
                (wides[(ci + variant * 3 + ctx.seed as usize) % wides.len()], [4usize, 8, 12][(ci + variant) % 3], sss[(ci / 3 + variant) % 5])
            };
            let px: Vec<[f32; 3]> = if variant == 0 {
                (0..w * h).map(|_| [rng.range(-0.1, 1.1) as f32, rng.range(-0.1, 1.1) as f32, rng.range(-0.1, 1.1) as f32]).collect()
            } else {
                let row0: Vec<[f32; 3]> = (0..w).map(|x| if variant == 2 && x < w * 7 / 8 { [0.0625f32, 0.0625, 0.0625] } else { [rng.range(-0.1, 1.1) as f32, rng.range(-0.1, 1.1) as f32, rng.range(-0.1, 1.1) as f32] }).collect();
                let mut v = Vec::with_capacity(w * h);
                for y in 0..h {
                    for x in 0..w {
                        // variant 1: every row equals row 0; variant 2: the left 7/8 is a flat bar, the right part changes per row
                        if variant == 2 && x >= w * 7 / 8 && y > 0 {
                            v.push([rng.range(0.0, 1.0) as f32, rng.range(0.0, 1.0) as f32, rng.range(0.0, 1.0) as f32]);
                        } else {
                            v.push(row0[x]);
                        }
                    }
                }
                v
            };
            let cfg = YuvConfig { subsampling_x: ss.0, subsampling_y: ss.1, ..cfg444(m, full, n) };
            let rgb = Rgb::new(px.clone(), w, h, TC::BT1886, CP::BT709).expect("len");
            let yuv: Yuv<u16> = match Yuv::try_from((&rgb, cfg)) {
                Ok(y) => y,
                Err(e) => {
                    ev::violation(format!("C02|encode-error|{m:?}"), format!("{e:?} for a {w}x{h} frame, subsampling {ss:?}"), J::Null);
                    return;
                }
            };
            nfr.fetch_add(1, Relaxed);
            let (cw, ch) = (w >> ss.0, h >> ss.1);
            let ok_dims = yuv.width() == w && yuv.height() == h && yuv.config() == cfg && yuv.data()[0].cfg.width == w && yuv.data()[0].cfg.height == h && (1..3).all(|p| yuv.data()[p].cfg.width == cw && yuv.data()[p].cfg.height == ch);
            if !ok_dims {
                ev::violation(format!("C02|config-or-dims|subsampled|{m:?}"), format!("{w}x{h} frame, subsampling {ss:?}: output {}x{} planes {:?}", yuv.width(), yuv.height(), (0..3).map(|p| (yuv.data()[p].cfg.width, yuv.data()[p].cfg.height)).collect::<Vec<_>>()), J::Null);
                return;
            }
            let maxv = ((1u64 << n) - 1) as f64;
            let tol = 0.5 + 1e-6 * (1u64 << n) as f64;
            let ideal = |i: usize| -> [f64; 3] {
                let q = quantise_ideal(rgb_to_ypbpr(m, px64(px[i])), n as u32, full);
                [q[0].clamp(0.0, maxv), q[1].clamp(0.0, maxv), q[2].clamp(0.0, maxv)]
            };
            let mut bad: Option<(usize, usize, usize, u16)> = None;
            'o: for y in 0..h {
                for x in 0..w {
                    let got = yuv.data()[0].p(x, y);
                    if !((got as f64 - ideal(y * w + x)[0]).abs() <= tol) {
                        bad = Some((0, x, y, got));
                        break 'o;
                    }
                }
            }
            if bad.is_none() {
                'c: for p in 1..3 {
                    for cy in 0..ch {
                        for cx in 0..cw {
                            let got = yuv.data()[p].p(cx, cy);
                            let mut ok = false;
                            for by in 0..(1usize << ss.1) {
                                for bx in 0..(1usize << ss.0) {
                                    let i = ((cy << ss.1) + by) * w + (cx << ss.0) + bx;
                                    ok |= (got as f64 - ideal(i)[p]).abs() <= tol;
                                }
                            }
                            if !ok {
                                bad = Some((p, cx, cy, got));
                                break 'c;
                            }
                        }
                    }
                }
            }
            if let Some((p, x, y, got)) = bad {
                ev::violation(
                    format!("C02|subsampled-frame|{m:?}|{}|n={n}", if full { "full" } else { "limited" }),
                    format!("{w}x{h} frame encoded with subsampling {ss:?}: plane {p} sample ({x},{y}) = {got} is not the nearest code of {}", if p == 0 { "its pixel" } else { "any pixel of its block" }),
                    J::obj().set("kind", "encode-frame").set("matrix", format!("{m:?}")).set("full", full).set("n", n).set("w", w).set("h", h).set("ss", [ss.0, ss.1]).set("plane", p).set("x", x).set("y", y),
                );
            }
            evals.fetch_add((w * h + 2 * cw * ch) as u64, Relaxed);
            }
        });
        ev::observe("subsampled_video_height_frames", nfr.load(Relaxed));
    }
    // one thread, every config in shuffled orders: an encode must not depend on what was encoded before it
    {
        let mut rng = Rng::new(ctx.seed, 0x5E0_0002);
        let mut seq = 0u64;
        for pass in 0..3 {
            let mut order: Vec<usize> = (0..cfgs.len()).collect();
            for i in (1..order.len()).rev() {
                order.swap(i, rng.below(i as u64 + 1) as usize);
            }
            if pass == 0 {
                order.sort_by_key(|i| (cfgs[*i].2, cfgs[*i].1));
            }
            for ci in order {
                let (m, full, n) = cfgs[ci];
                let (px, _) = enc_inputs(&mut rng, m, full, n, 24, false);
                let mut acc = EncAcc { worst: Worst::new(), hist: [0; 12], clamp_lo: [0; 3], clamp_hi: [0; 3], inrange: [0; 3] };
                encode_check::<u16>(ci, cfgs[ci], &px, &mut acc);
                if n == 8 {
                    encode_check::<u8>(ci, cfgs[ci], &px, &mut acc);
                }
                seq += px.len() as u64;
                if !(acc.worst.err <= 1.0) {
                    if let Some(at) = acc.worst.at {
                        ev::violation(
                            format!("C02|rounding|sequence|{m:?}|{}|n={n}", if full { "full" } else { "limited" }),
                            format!("encoding configs one after another on one thread (pass {pass}): code {} vs ideal {:.6}", at.got, at.ideal),
                            J::obj().set("kind", "encode").set("matrix", format!("{m:?}")).set("full", full).set("n", n).set("u8", at.u8s).set("rgb", px_json(at.px)).set("note", "depends on the preceding encodes: re-run the check with the same seed"),
                        );
                    }
                }
            }
        }
        ev::observe("sequential_order_pixels", seq);
        evals.fetch_add(seq, Relaxed);
    }
    let mut pc = per_cfg.into_inner().unwrap();
    pc.sort_by_key(|j| j.to_string());
    let g = tot.lock().unwrap();
    ev::add_evals(evals.load(Relaxed));
    ev::add_nontrivial(distinct.count());
    ev::observe("abs_code_minus_ideal_histogram_bins_of_0.05", g.0.to_vec());
    ev::observe("ideal_below_0_per_plane", g.1.to_vec());
    ev::observe("ideal_in_range_per_plane", g.2.to_vec());
    ev::observe("ideal_above_max_per_plane", g.3.to_vec());
    ev::observe(
        "strata_counts",
        J::obj()
            .set("luma_half_code_boundary", g.4[0])
            .set("chroma_half_code_boundary", g.4[1])
            .set("cube_corners_faces", g.4[2])
            .set("ulp_neighbours_subnormals", g.4[3])
            .set("unit_cube", g.4[4])
            .set("wide_cube", g.4[5]),
    );
    let w = pc.iter().filter_map(|j| j.get("worst_excess_over_half_code_in_units_of_slack").and_then(J::as_f64)).fold(f64::MIN, f64::max);
    ev::observe("worst_excess_in_units_of_slack_overall", w);
    ev::observe("per_config", J::Arr(pc.clone()));
    for j in pc.iter().take(3) {
        ev::sample(j.clone());
    }
    ev::rule(
        "126 configs (7 matrices x 2 ranges x n=8..16), u16 storage (+u8 at n=8); RGB pixels in [-0.5,1.5]^3 from 6 strata: greys whose ideal luma code is k+0.5+-delta \
         (delta 1e-3..0, +-2 ulp; every k at n<=10), single-channel bumps whose ideal chroma code is k+0.5+-delta, cube corners/faces, 1-2 ulp neighbours of 0/1/-0.5/1.5 with subnormals and -0, \
         uniform unit cube, uniform wide cube. distinct = hash bitset over (config, pixel bits); every pixel is non-trivial (each is compared on all three planes)",
    );
}

// ------------------------------------------------------------------ C16
pub fn c16(ctx: &Ctx) {
    let cfgs = configs();
    let worst_spread = Mutex::new(Worst::<(usize, u32, [f32; 3])>::new());
    let worst_white = Mutex::new(Worst::<(usize, [f32; 3])>::new());
    let evals = AtomicU64::new(0);
    ev::par_ranges("C16", cfgs.len() as u64, 1, |_w, a, _b| {
        let ci = a as usize;
        let (m, full, n) = cfgs[ci];
        let k = 1u32 << (n - 8);
        let mid = 1u32 << (n - 1);
        let tri: Vec<[u32; 3]> = (0..(1u32 << n)).map(|y| [y, mid, mid]).collect();
        let cfg = cfg444(m, full, n);
        let mut ws = Worst::new();
        let mut run = |data: &[[f32; 3]], u8s: bool| {
            for (i, p) in data.iter().enumerate() {
                let sp = (p[0].max(p[1]).max(p[2]) - p[0].min(p[1]).min(p[2])) as f64;
                let sp = if p.iter().any(|v| v.is_nan()) { f64::NAN } else { sp };
                ws.upd(sp, (ci, i as u32, *p));
            }
            let black = if full { 0 } else { 16 * k } as usize;
            let white = if full { (1u32 << n) - 1 } else { 235 * k } as usize;
            let b = data[black];
            if b.iter().any(|v| v.to_bits() != 0 && *v != 0.0) {
                ev::violation(
                    format!("C16|black-not-zero|{m:?}|{}|n={n}", if full { "full" } else { "limited" }),
                    format!("nominal black decodes to {b:?}, expected exactly (0,0,0)"),
                    J::obj().set("kind", "grey-decode").set("matrix", format!("{m:?}")).set("full", full).set("n", n).set("u8", u8s).set("yuv", [black as u32, mid, mid]),
                );
            }
            let w = data[white];
            let e = w.iter().map(|v| (*v as f64 - 1.0).abs()).fold(0.0, |a: f64, b| if b.is_nan() { f64::NAN } else { a.max(b) });
            worst_white.lock().unwrap().upd(e, (ci, w));
            if !(e <= 1e-6) {
                ev::violation(
                    format!("C16|white-not-one|{m:?}|{}|n={n}", if full { "full" } else { "limited" }),
                    format!("nominal white decodes to {w:?}"),
                    J::obj().set("kind", "grey-decode").set("matrix", format!("{m:?}")).set("full", full).set("n", n).set("u8", u8s).set("yuv", [white as u32, mid, mid]),
                );
            }
        };
        let yuv: Yuv<u16> = mk_yuv(&tri, cfg);
        match Rgb::try_from(&yuv) {
            Ok(r) => run(r.data(), false),
            Err(e) => ev::violation(format!("C16|decode-error|{m:?}"), format!("{e:?}"), J::Null),
        }
        evals.fetch_add(tri.len() as u64, Relaxed);
        if n == 8 {
            let yuv: Yuv<u8> = mk_yuv(&tri, cfg);
            match Rgb::try_from(&yuv) {
                Ok(r) => run(r.data(), true),
                Err(e) => ev::violation(format!("C16|decode-error|{m:?}"), format!("{e:?}"), J::Null),
            }
            evals.fetch_add(tri.len() as u64, Relaxed);
        }
        if !(ws.err <= 5e-7) {
            if let Some((_, y, p)) = ws.at {
                ev::violation(
                    format!("C16|grey-spread|{m:?}|{}|n={n}", if full { "full" } else { "limited" }),
                    format!("grey code {y} decodes to {p:?}: spread {:.3e} > 5e-7", ws.err),
                    J::obj().set("kind", "grey-decode").set("matrix", format!("{m:?}")).set("full", full).set("n", n).set("u8", false).set("yuv", [y, mid, mid]),
                );
            }
        }
        worst_spread.lock().unwrap().merge(&ws);
    });
    // multi-row frames: a coloured first chroma row above neutral rows, chroma planes one or a few columns wide,
    // U and V padded differently with non-neutral padding contents: the neutral samples must still decode to greys
    {
        let shapes: [(usize, usize, (u8, u8)); 8] = [(1, 4, (0, 0)), (2, 4, (1, 1)), (4, 8, (2, 2)), (6, 4, (1, 0)), (5, 6, (0, 1)), (8, 4, (1, 1)), (12, 2, (2, 0)), (6, 3, (1, 0))];
        let pads: [(usize, usize, usize); 3] = [(0, 17, 0), (0, 0, 17), (3, 1, 32)];
        let wm = Mutex::new(Worst::<(usize, usize, usize, [f32; 3])>::new());
        let nframes = AtomicU64::new(0);
        ev::par_ranges("C16", cfgs.len() as u64, 1, |_w, a, _b| {
            let ci = a as usize;
            let (m, full, n) = cfgs[ci];
            let mut rng = Rng::new(ctx.seed, 0x0C16_2000 + a);
            let maxc = 1u64 << n;
            let mid = 1u32 << (n - 1);
            let mut lw = Worst::new();
            for (si, (w, h, ss)) in shapes.into_iter().enumerate() {
              // pattern 0: a coloured first chroma row above neutral rows; pattern 1: a neutral first chroma column left of coloured columns
              for pattern in 0..2usize {
                let pad = pads[(si + ci + pattern) % 3];
                let (cw, ch) = (w >> ss.0, h >> ss.1);
                let mut g: Frame<u16> = Frame {
                    planes: [Plane::new(w, h, 0, 0, pad.0, pad.0), Plane::new(cw, ch, ss.0 as usize, ss.1 as usize, pad.1, pad.1), Plane::new(cw, ch, ss.0 as usize, ss.1 as usize, pad.2, pad.2)],
                };
                for p in 0..3 {
                    for v in g.planes[p].data.iter_mut() {
                        *v = rng.below(maxc) as u16; // padding is anything but neutral
                    }
                    let (pw, ph) = if p == 0 { (w, h) } else { (cw, ch) };
                    // for half of the configs the visible area is moved inside the padding by hand (odd origins)
                    let padp = [pad.0, pad.1, pad.2][p];
                    if (ci + si) % 2 == 0 && padp >= 1 {
                        g.planes[p].cfg.xorigin += 1;
                        g.planes[p].cfg.yorigin += 1;
                    }
                    let stride = g.planes[p].cfg.stride;
                    let d = g.planes[p].data_origin_mut();
                    for y in 0..ph {
                        for x in 0..pw {
                            let coloured = if pattern == 0 { y == 0 } else { x > 0 };
                            d[y * stride + x] = if p == 0 || coloured { rng.below(maxc) as u16 } else { mid as u16 };
                        }
                    }
                }
                let cfg = YuvConfig { subsampling_x: ss.0, subsampling_y: ss.1, ..cfg444(m, full, n) };
                let Ok(yuv) = Yuv::new(g, cfg) else { continue };
                let Ok(rgb) = Rgb::try_from(&yuv) else { continue };
                nframes.fetch_add(1, Relaxed);
                for y in 0..h {
                    for x in 0..w {
                        let neutral = if pattern == 0 { (y >> ss.1) > 0 } else { (x >> ss.0) == 0 };
                        if !neutral {
                            continue;
                        }
                        let q = rgb.data()[y * w + x];
                        let sp = if q.iter().any(|v| v.is_nan()) { f64::NAN } else { (q[0].max(q[1]).max(q[2]) - q[0].min(q[1]).min(q[2])) as f64 };
                        lw.upd(sp, (si, x, y, q));
                    }
                }
              }
            }
            if !(lw.err <= 5e-7) {
                if let Some((si, x, y, q)) = lw.at {
                    let (w, h, ss) = shapes[si];
                    ev::violation(
                        format!("C16|grey-spread|multi-row|{m:?}|{}|n={n}", if full { "full" } else { "limited" }),
                        format!("{w}x{h} frame, subsampling {ss:?}, coloured first chroma row / coloured chroma columns right of a neutral one: the neutral-chroma pixel ({x},{y}) decodes to {q:?} (spread {:.3e} > 5e-7)", lw.err),
                        J::obj().set("kind", "grey-multirow").set("matrix", format!("{m:?}")).set("full", full).set("n", n).set("w", w).set("h", h).set("ss", [ss.0, ss.1]).set("x", x).set("y", y),
                    );
                }
            }
            wm.lock().unwrap().merge(&lw);
        });
        ev::observe("multi_row_grey_frames", nframes.load(Relaxed));
        ev::observe("multi_row_grey_worst_spread", wm.lock().unwrap().err);
        evals.fetch_add(nframes.load(Relaxed) * 12, Relaxed);
    }
    // the matrices that are derived from the primaries ("for every matrix"): every (matrix, primaries) pair that decodes
    {
        let derived = [MC::Identity, MC::BT2020ConstantLuminance, MC::ChromaticityDerivedConstantLuminance, MC::ST2085, MC::ICtCp, MC::ChromaticityDerivedNonConstantLuminance, MC::Reserved];
        let mut dcfgs = Vec::new();
        for m in derived {
            for p in ALL_CP {
                for full in [false, true] {
                    for n in [8u8, 10, 12, 16] {
                        dcfgs.push((m, p, full, n));
                    }
                }
            }
        }
        let wd = Mutex::new(Worst::<(MC, CP, bool, u8, u32, [f32; 3])>::new());
        let decoded = AtomicU64::new(0);
        ev::par_ranges("C16", dcfgs.len() as u64, 4, |_w, a, b| {
            for i in a..b {
                let (m, p, full, n) = dcfgs[i as usize];
                let k = 1u32 << (n - 8);
                let mid = 1u32 << (n - 1);
                let tri: Vec<[u32; 3]> = (0..(1u32 << n)).map(|y| [y, mid, mid]).collect();
                let cfg = cfg_full(m, TC::BT1886, p, full, n, (0, 0));
                let yuv: Yuv<u16> = mk_yuv(&tri, cfg);
                let Ok(rgb) = Rgb::try_from(&yuv) else { continue }; // unsupported pairs are C14's business
                decoded.fetch_add(1, Relaxed);
                evals.fetch_add(tri.len() as u64, Relaxed);
                let mut w = Worst::new();
                for (y, q) in rgb.data().iter().enumerate() {
                    let sp = if q.iter().any(|v| v.is_nan()) { f64::NAN } else { (q[0].max(q[1]).max(q[2]) - q[0].min(q[1]).min(q[2])) as f64 };
                    w.upd(sp, (m, p, full, n, y as u32, *q));
                }
                let black = rgb.data()[if full { 0 } else { 16 * k } as usize];
                let white = rgb.data()[if full { (1u32 << n) - 1 } else { 235 * k } as usize];
                let case = |y: u32| J::obj().set("kind", "grey-decode-derived").set("matrix", format!("{m:?}")).set("primaries", format!("{p:?}")).set("full", full).set("n", n).set("yuv", [y, mid, mid]);
                if black.iter().any(|v| *v != 0.0) {
                    ev::violation(format!("C16|black-not-zero|{m:?}|{p:?}"), format!("nominal black decodes to {black:?}"), case(0));
                }
                if !white.iter().all(|v| (*v as f64 - 1.0).abs() <= 1e-6) {
                    ev::violation(format!("C16|white-not-one|{m:?}|{p:?}"), format!("nominal white decodes to {white:?}"), case(1));
                }
                if !(w.err <= 5e-7) {
                    if let Some((_, _, _, _, y, q)) = w.at {
                        ev::violation(format!("C16|grey-spread|{m:?}|{p:?}"), format!("grey code {y} decodes to {q:?}: spread {:.3e} > 5e-7 ({} range, {n} bit)", w.err, if full { "full" } else { "limited" }), case(y));
                    }
                }
                wd.lock().unwrap().merge(&w);
            }
        });
        ev::observe("derived_matrix_configs_decoded", decoded.load(Relaxed));
        ev::observe("derived_matrix_grey_worst_spread", wd.lock().unwrap().err);
    }
    let ws = worst_spread.lock().unwrap();
    ev::observe("yuv_grey_worst_spread", ws.err);
    if let Some((ci, y, p)) = ws.at {
        let (m, full, n) = cfgs[ci];
        ev::observe("yuv_grey_worst_spread_at", J::obj().set("matrix", format!("{m:?}")).set("full", full).set("n", n).set("luma_code", y).set("rgb", p));
        ev::sample(J::obj().set("kind", "yuv grey").set("matrix", format!("{m:?}")).set("full", full).set("n", n).set("luma_code", y).set("rgb", p));
    }
    ev::observe("yuv_white_worst_abs_err", worst_white.lock().unwrap().err);
    let mut nontrivial = evals.load(Relaxed);

    // transfer anchors
    let mut anchors = Vec::new();
    for t in TRANSFERS {
        let v = vec![[0.0f32, 1.0, 0.5]];
        let is_log = matches!(t, TC::Logarithmic100 | TC::Logarithmic316);
        for dir in 0..2 {
            let r = if dir == 0 { lin_of(t, v.clone()) } else { gam_of(t, v.clone()) };
            let r = match r {
                Ok(r) => r,
                Err(e) => {
                    ev::violation(format!("C16|transfer-error|{t:?}"), e, J::Null);
                    continue;
                }
            };
            let (f0, f1) = (r[0][0] as f64, r[0][1] as f64);
            let budget1 = if t == TC::PerceptualQuantizer && dir == 1 { 5.7e-4 } else { 2.5e-4 };
            anchors.push(J::obj().set("transfer", format!("{t:?}")).set("dir", if dir == 0 { "to_linear" } else { "to_gamma" }).set("f(0)", f0).set("f(1)", f1));
            nontrivial += 2;
            if !is_log && !(f0.abs() <= 1e-6) {
                ev::violation(
                    format!("C16|transfer-zero|{t:?}|{}", if dir == 0 { "to_linear" } else { "to_gamma" }),
                    format!("f(0) = {f0:e}, expected 0 within 1e-6"),
                    J::obj().set("kind", "transfer-anchor").set("transfer", format!("{t:?}")).set("dir", dir).set("x", 0.0),
                );
            }
            // log curves: f(1) = 1 still holds; the property exempts them only from the 0 anchor
            if !((f1 - 1.0).abs() < budget1) {
                ev::violation(
                    format!("C16|transfer-one|{t:?}|{}", if dir == 0 { "to_linear" } else { "to_gamma" }),
                    format!("f(1) = {f1}, expected 1 within {budget1:e}"),
                    J::obj().set("kind", "transfer-anchor").set("transfer", format!("{t:?}")).set("dir", dir).set("x", 1.0),
                );
            }
        }
    }
    ev::observe("transfer_anchors", J::Arr(anchors));

    // linear greys through primaries, XYB, HSL
    let ng: usize = ctx.pick(1 << 20, 1 << 24);
    let mut rng = Rng::new(ctx.seed, 0x0C16);
    let mut greys: Vec<[f32; 3]> = (0..=ng).map(|i| [i as f32 / ng as f32; 3]).collect();
    for _ in 0..(ng / 4) {
        greys.push([rng.unit_bits(); 3]);
    }
    // a second image interleaves the greys with coloured and non-finite pixels (not judged): a grey must not inherit anything
    {
        let mut mixed: Vec<[f32; 3]> = Vec::with_capacity(greys.len() / 8 * 3);
        let companions = [[1.0f32, 0.0, 0.0], [0.1, 0.9, 0.3], [f32::NAN, 0.5, 0.5], [0.0, 0.0, 1.0], [f32::INFINITY, 1.0, 0.0], [0.9, 0.9, 0.1]];
        for (i, g) in greys.iter().enumerate().filter(|(i, _)| i % 8 == 3) {
            mixed.push(companions[(i / 8) % companions.len()]);
            mixed.push(*g);
        }
        let nm = mixed.len();
        let xm = Xyb::from(LinearRgb::new(mixed.clone(), nm, 1).unwrap());
        let hm = Hsl::from(LinearRgb::new(mixed.clone(), nm, 1).unwrap());
        let mut bad = 0u64;
        let mut first = None;
        for i in (1..nm).step_by(2) {
            let g = mixed[i][0];
            let (p, q) = (xm.data()[i], hm.data()[i]);
            let ok = p[0].abs() <= 1e-6 && (p[1] - p[2]).abs() <= 1e-6 && q[0] == 0.0 && q[1] == 0.0 && q[2].to_bits() == g.to_bits();
            if !ok {
                bad += 1;
                if first.is_none() {
                    first = Some((g, mixed[i - 1], p, q));
                }
            }
        }
        nontrivial += (nm / 2) as u64;
        ev::observe("greys_between_coloured_and_nonfinite_pixels", nm / 2);
        if let Some((g, comp, p, q)) = first {
            ev::violation(
                "C16|grey-after-companion",
                format!("{bad} greys; first: grey {g} following pixel {comp:?} maps to XYB {p:?}, HSL {q:?} (expected X=0, Y=B, HSL (0,0,{g}))"),
                J::obj().set("kind", "grey-after-companion").set("grey", g).set("companion", px_json(comp)),
            );
        }
    }
    let n = greys.len();
    nontrivial += n as u64;
    let x = Xyb::from(LinearRgb::new(greys.clone(), n, 1).unwrap());
    let h = Hsl::from(LinearRgb::new(greys.clone(), n, 1).unwrap());
    let (mut wx, mut wyb) = (Worst::<f32>::new(), Worst::<f32>::new());
    let mut hbad: Option<(f32, [f32; 3])> = None;
    let mut hbad_n = 0u64;
    for i in 0..n {
        let p = x.data()[i];
        wx.upd(if p[0].is_nan() { f64::NAN } else { p[0].abs() as f64 }, greys[i][0]);
        wyb.upd(if (p[1] - p[2]).is_nan() { f64::NAN } else { (p[1] - p[2]).abs() as f64 }, greys[i][0]);
        let q = h.data()[i];
        if q[0] != 0.0 || q[1] != 0.0 || q[2].to_bits() != greys[i][0].to_bits() {
            hbad_n += 1;
            if hbad.is_none() {
                hbad = Some((greys[i][0], q));
            }
        }
    }
    ev::observe("xyb_grey_max_abs_X", wx.err);
    ev::observe("xyb_grey_max_abs_Y_minus_B", wyb.err);
    if !(wx.err <= 1e-6) {
        ev::violation("C16|xyb-grey-X", format!("grey {:?} has |X| = {:.3e} > 1e-6", wx.at, wx.err), J::obj().set("kind", "xyb-grey").set("grey", wx.at));
    }
    if !(wyb.err <= 1e-6) {
        ev::violation("C16|xyb-grey-Y-B", format!("grey {:?} has |Y-B| = {:.3e} > 1e-6", wyb.at, wyb.err), J::obj().set("kind", "xyb-grey").set("grey", wyb.at));
    }
    let bl = x.data()[0];
    ev::observe("xyb_black", bl);
    if !bl.iter().all(|v| v.abs() <= 1e-6) {
        ev::violation("C16|xyb-black", format!("black maps to XYB {bl:?}"), J::obj().set("kind", "xyb-grey").set("grey", 0.0));
    }
    ev::observe("hsl_grey_mismatches", hbad_n);
    if let Some((g, q)) = hbad {
        ev::violation("C16|hsl-grey", format!("{hbad_n} greys; first: grey {g} -> HSL {q:?}, expected (0,0,{g})"), J::obj().set("kind", "hsl-grey").set("grey", g));
    }
    let mut wp = Worst::<(CP, u8, f32)>::new();
    for p in PRIMARIES {
        for dir in 0..2u8 {
            let out = if dir == 0 {
                Rgb::new(greys.clone(), n, 1, TC::Linear, p).map_err(|e| format!("{e:?}")).and_then(|r| LinearRgb::try_from(r).map(LinearRgb::into_data).map_err(|e| format!("{e:?}")))
            } else {
                Rgb::try_from((LinearRgb::new(greys.clone(), n, 1).unwrap(), TC::Linear, p)).map(Rgb::into_data).map_err(|e| format!("{e:?}"))
            };
            let out = match out {
                Ok(o) => o,
                Err(e) => {
                    ev::violation(format!("C16|primaries-error|{p:?}"), e, J::Null);
                    continue;
                }
            };
            let mut w = Worst::<(CP, u8, f32)>::new();
            for (i, q) in out.iter().enumerate() {
                let s = q[0].max(q[1]).max(q[2]) - q[0].min(q[1]).min(q[2]);
                let s = if q.iter().any(|v| v.is_nan()) { f64::NAN } else { s as f64 };
                w.upd(s, (p, dir, greys[i][0]));
            }
            nontrivial += n as u64;
            if !(w.err <= 2.2e-5) {
                ev::violation(
                    format!("C16|primaries-grey|{p:?}|dir={dir}"),
                    format!("grey {:?} leaves the primaries conversion with spread {:.3e} > 2.2e-5", w.at.map(|a| a.2), w.err),
                    J::obj().set("kind", "primaries-grey").set("primaries", format!("{p:?}")).set("dir", dir).set("grey", w.at.map(|a| a.2)),
                );
            }
            wp.merge(&w);
        }
    }
    ev::observe("primaries_grey_worst_spread", wp.err);
    ev::sample(J::obj().set("kind", "linear grey").set("grey", greys[n / 3][0]).set("xyb", x.data()[n / 3]).set("hsl", h.data()[n / 3]));
    ev::add_evals(nontrivial);
    ev::add_nontrivial(nontrivial);
    ev::exhaustive(false);
    ev::rule(
        "every luma code 0..2^n-1 with chroma 2^(n-1) for 7 matrices x 2 ranges x n=8..16 (u16, +u8 at n=8; complete for the code domain); f(0), f(1) of all 14 curves in both directions; \
         uniform + random-bit-pattern linear greys through XYB, HSL and all 11 primaries x 2 directions. Each grey/code is one distinct case by enumeration",
    );
}

// ------------------------------------------------------------------ replay
pub fn replay(mon: &str, case: &J) -> bool {
    let kind = case.get("kind").and_then(J::as_str).unwrap_or("");
    let m = case.get("matrix").and_then(J::as_str).and_then(mc_by_name);
    let full = case.get("full").and_then(J::as_bool);
    let n = case.get("n").and_then(J::as_u64).map(|v| v as u8);
    let u8s = case.get("u8").and_then(J::as_bool).unwrap_or(false);
    let (Some(m), Some(full), Some(n)) = (m, full, n) else { return false };
    let cfgs = configs();
    let Some(ci) = cfgs.iter().position(|c| *c == (m, full, n)) else { return false };
    match kind {
        "decode" | "roundtrip" | "grey-decode" => {
            let Some(a) = case.get("yuv").and_then(J::as_arr) else { return false };
            let tri = [[a[0].as_u64().unwrap_or(0) as u32, a[1].as_u64().unwrap_or(0) as u32, a[2].as_u64().unwrap_or(0) as u32]];
            let stats = DecStats::default();
            let mut worst = Worst::new();
            let mut rt = RtStats::default();
            let want_rt = kind == "roundtrip";
            if u8s {
                decode_check::<u8>(ci, cfgs[ci], &tri, &mut worst, &stats, if want_rt { Some(&mut rt) } else { None });
            } else {
                decode_check::<u16>(ci, cfgs[ci], &tri, &mut worst, &stats, if want_rt { Some(&mut rt) } else { None });
            }
            ev::add_evals(1);
            ev::observe("replay_abs_err", worst.err);
            if let Some(at) = worst.at {
                ev::observe("replay_result", dec_case(&cfgs, &at));
                let spread = {
                    let cfg = cfg444(m, full, n);
                    let y: Yuv<u16> = mk_yuv(&tri, cfg);
                    Rgb::try_from(&y).map(|r| r.data()[0]).ok()
                };
                ev::observe("replay_rgb", spread.map(J::from));
            }
            if mon == "C01" && !(worst.err <= TOL_C01) {
                ev::violation("C01|replay", format!("err {:.3e}", worst.err), case.clone());
            }
            if want_rt && rt.bad > 0 {
                ev::violation("C08|replay", format!("{:?}", rt.first_bad), case.clone());
            }
            if kind == "grey-decode" {
                if let Some(at) = worst.at {
                    let _ = at;
                }
                let cfg = cfg444(m, full, n);
                let y: Yuv<u16> = mk_yuv(&tri, cfg);
                if let Ok(r) = Rgb::try_from(&y) {
                    let p = r.data()[0];
                    let sp = p[0].max(p[1]).max(p[2]) - p[0].min(p[1]).min(p[2]);
                    ev::observe("replay_spread", sp);
                    if !(sp as f64 <= 5e-7) {
                        ev::violation("C16|replay", format!("rgb {p:?} spread {sp:e}"), case.clone());
                    }
                }
            }
            true
        }
        "encode" => {
            let Some(px) = case.get("rgb").and_then(parse_bits3) else { return false };
            let mut acc = EncAcc { worst: Worst::new(), hist: [0; 12], clamp_lo: [0; 3], clamp_hi: [0; 3], inrange: [0; 3] };
            if u8s {
                encode_check::<u8>(ci, cfgs[ci], &[px], &mut acc);
            } else {
                encode_check::<u16>(ci, cfgs[ci], &[px], &mut acc);
            }
            ev::add_evals(1);
            ev::observe("replay_excess_in_units_of_slack", acc.worst.err);
            if let Some(at) = acc.worst.at {
                ev::observe("replay_result", J::obj().set("plane", at.plane).set("got", at.got).set("ideal", at.ideal));
            }
            if !(acc.worst.err <= 1.0) {
                ev::violation("C02|replay", format!("excess {:.3}", acc.worst.err), case.clone());
            }
            true
        }
        _ => false,
    }
}

#[allow(dead_code)]
fn unused(_: u64) -> u64 {
    hash64(0)
}
