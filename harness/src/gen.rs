//! Seeded generators. Every worker derives its own stream from (seed, stream
//! id), so a run is a pure function of (tree, tier, seed).

#[derive(Clone)]
pub struct Rng(u64);

impl Rng {
    pub fn new(seed: u64, stream: u64) -> Self {
        let mut r = Rng(seed ^ stream.wrapping_mul(0xD1B5_4A32_D192_ED03) ^ 0x5851_F42D_4C95_7F2D);
        r.next();
        r.next();
        r
    }
    #[inline]
    pub fn next(&mut self) -> u64 {
        self.0 = self.0.wrapping_add(0x9E37_79B9_7F4A_7C15);
        let mut z = self.0;
        z = (z ^ (z >> 30)).wrapping_mul(0xBF58_476D_1CE4_E5B9);
        z = (z ^ (z >> 27)).wrapping_mul(0x94D0_49BB_1331_11EB);
        z ^ (z >> 31)
    }
    #[inline]
    pub fn below(&mut self, n: u64) -> u64 {
        // multiply-shift; bias negligible for n << 2^64
        ((self.next() as u128 * n as u128) >> 64) as u64
    }
    #[inline]
    pub fn unit(&mut self) -> f64 {
        (self.next() >> 11) as f64 / (1u64 << 53) as f64
    }
    #[inline]
    pub fn range(&mut self, lo: f64, hi: f64) -> f64 {
        lo + (hi - lo) * self.unit()
    }
    /// a float in [0,1] drawn uniformly over *bit patterns* (log-like density)
    #[inline]
    pub fn unit_bits(&mut self) -> f32 {
        f32::from_bits(self.below(0x3F80_0001) as u32)
    }
    #[inline]
    pub fn pick<T: Copy>(&mut self, xs: &[T]) -> T {
        xs[self.below(xs.len() as u64) as usize]
    }
    #[inline]
    pub fn coin(&mut self) -> bool {
        self.next() & 1 == 1
    }
}

pub fn hash64(mut z: u64) -> u64 {
    z = (z ^ (z >> 30)).wrapping_mul(0xBF58_476D_1CE4_E5B9);
    z = (z ^ (z >> 27)).wrapping_mul(0x94D0_49BB_1331_11EB);
    z ^ (z >> 31)
}
pub fn hash_px(p: [f32; 3]) -> u64 {
    let a = hash64(p[0].to_bits() as u64 | ((p[1].to_bits() as u64) << 32));
    hash64(a ^ (p[2].to_bits() as u64).wrapping_mul(0x9E37_79B9_7F4A_7C15))
}
pub fn hash_mix(a: u64, b: u64) -> u64 {
    hash64(a ^ b.wrapping_mul(0x9E37_79B9_7F4A_7C15).rotate_left(17))
}

/// Hostile special values for float workloads (C07/C13/C18).
pub const SPECIALS: [f32; 50] = [
    f32::NAN,
    f32::INFINITY,
    f32::NEG_INFINITY,
    3e38,
    -3e38,
    f32::MAX,
    f32::MIN,
    2.4e38,
    6e37,
    5.9e37,
    1e-45,
    -1e-45,
    1e-40,
    -1e-40,
    f32::MIN_POSITIVE,
    -f32::MIN_POSITIVE,
    0.0,
    -0.0,
    1.0,
    -1.0,
    0.5,
    2.0,
    1e10,
    -1e10,
    1e20,
    -1e20,
    85.0,
    88.0,
    88.72284,
    89.0,
    126.0,
    127.0,
    128.0,
    129.0,
    130.0,
    -126.0,
    -127.0,
    -128.0,
    -150.0,
    1.0000001,
    0.99999994,
    65535.0,
    65536.0,
    4.2949673e9,
    -1e-20,
    -1e-6,
    -f32::EPSILON,
    f32::EPSILON,
    359.99997,
    360.0,
];

pub fn nan_payloads() -> [f32; 4] {
    [
        f32::from_bits(0x7FC0_0000),
        f32::from_bits(0xFFC0_0000),
        f32::from_bits(0x7F80_0001),
        f32::from_bits(0xFFFF_FFFF),
    ]
}

/// one hostile component: special value, NaN payload, random bit pattern, or unit float
#[inline]
pub fn hostile(rng: &mut Rng) -> (f32, u8) {
    match rng.below(8) {
        0 | 1 => (rng.pick(&SPECIALS), 0),
        2 => (rng.pick(&nan_payloads()), 1),
        3 | 4 => (f32::from_bits(rng.next() as u32), 2),
        5 => ((rng.range(-2.0, 3.0)) as f32, 3),
        _ => (rng.unit() as f32, 4),
    }
}
pub fn hostile_px(rng: &mut Rng) -> [f32; 3] {
    [hostile(rng).0, hostile(rng).0, hostile(rng).0]
}

/// a pixel whose components are algebraically related (equal, complementary, multiples, sums), scaled into [0, hi]
pub fn related_px(rng: &mut Rng, hi: f64) -> [f32; 3] {
    let a = rng.unit();
    let b = rng.unit();
    let p = match rng.below(12) {
        0 => [a, a, b],
        1 => [a, b, a],
        2 => [b, a, a],
        3 => [a, 1.0 - a, b],
        4 => [a, b, 1.0 - b],
        5 => [a, a / 2.0, a / 4.0],
        6 => [a / 4.0, a / 2.0, a],
        7 => [a, b, (a + b) / 2.0],
        8 => [a, b, a * b],
        9 => [a, 1.0 - a, 1.0 - a],
        10 => [a, (a + 1e-6).min(1.0), (a - 1e-6).max(0.0)],
        _ => [a, b, (a - b).abs()],
    };
    [(p[0] * hi) as f32, (p[1] * hi) as f32, (p[2] * hi) as f32]
}

/// classify a float for the "what was fed" histograms
pub fn fclass(v: f32) -> usize {
    if v.is_nan() {
        0
    } else if v.is_infinite() {
        1
    } else if v == 0.0 {
        2
    } else if !v.is_normal() {
        3
    } else if v.abs() >= 1e30 {
        4
    } else if v < 0.0 {
        5
    } else if v <= 1.0 {
        6
    } else {
        7
    }
}
pub const FCLASS_NAMES: [&str; 8] = ["nan", "inf", "zero", "subnormal", "huge(>=1e30)", "negative", "unit(0,1]", "above1"];

/// `v` moved by `k` units in the last place, kept inside [0, 1]
pub fn nudge(v: f32, k: i64) -> f32 {
    let b = v.to_bits() as i64 + k;
    if b < 0 {
        return 0.0;
    }
    f32::from_bits(b as u32).clamp(0.0, 1.0)
}
