use crate::{json::J, Ctx};
pub fn c07(_ctx: &Ctx) {}
pub fn c13(_ctx: &Ctx) {}
pub fn replay(_m: &str, _c: &J) -> bool { false }
