//! C07 (no safe call sequence reaches UB) and C13 (total on arbitrary floats, valid codes).
//!
//! In-process mode (release build, hooks in Trap mode): every case is guarded; a hook panic is a
//! C07 violation, any other panic is a *safe* panic (counted; a C13 violation when the property
//! forbids it). Child mode (`--child`): sequential, prints `CASE <i> <desc>` before each case so the
//! parent can attribute an abort / sanitizer / Miri report; hooks in Record mode.
use crate::ev::{self, ChildSel};
use crate::frames::{self, FrameSpec};
use crate::gen::{self, Rng};
use crate::json::J;
use crate::oracle::{MATRICES, PRIMARIES, TRANSFERS};
use crate::util::*;
use crate::{Ctx, Tier};
use std::collections::BTreeMap;
use std::sync::Mutex;
use yuvxyb::*;
use yuvxyb_math::verif as vh;

#[derive(Default, Clone)]
struct Stats {
    cases: u64,
    accepted: u64,
    rejected: BTreeMap<String, u64>,
    conversions: u64,
    safe_panics: u64,
    safe_panic_sites: BTreeMap<String, u64>,
    hook_violations: u64,
    undersized_accepted: u64,
    edges: BTreeMap<String, u64>,
    walk_seqs: std::collections::BTreeSet<u64>,
    fclasses: [u64; 8],
    pixels: u64,
}
impl Stats {
    fn merge(&mut self, o: &Stats) {
        self.cases += o.cases;
        self.accepted += o.accepted;
        for (k, v) in &o.rejected {
            *self.rejected.entry(k.clone()).or_insert(0) += v;
        }
        self.conversions += o.conversions;
        self.safe_panics += o.safe_panics;
        for (k, v) in &o.safe_panic_sites {
            *self.safe_panic_sites.entry(k.clone()).or_insert(0) += v;
        }
        self.hook_violations += o.hook_violations;
        self.undersized_accepted += o.undersized_accepted;
        for (k, v) in &o.edges {
            *self.edges.entry(k.clone()).or_insert(0) += v;
        }
        self.walk_seqs.extend(o.walk_seqs.iter().copied());
        for i in 0..8 {
            self.fclasses[i] += o.fclasses[i];
        }
        self.pixels += o.pixels;
    }
}

/// Run one case body. Classifies the outcome: hook trap -> C07 violation; other panic -> safe panic.
fn run_case(prop: &str, part: &str, desc: &dyn Fn() -> String, case: &dyn Fn() -> J, st: &mut Stats, body: impl FnOnce(&mut Stats)) {
    let before = vh::thread_violations();
    let mut local = Stats::default();
    let r = ev::guarded(|| body(&mut local));
    st.merge(&local);
    st.cases += 1;
    let after = vh::thread_violations();
    if after > before {
        st.hook_violations += after - before;
        let (site, what) = vh::thread_last_violation().as_ref().map_or(("unknown".to_string(), String::new()), |v| {
            (vh::SITE_NAMES[v.site].to_string(), if v.site == vh::EXP2_TO_INT { format!("value bits {:#010x}", v.a) } else { format!("index {} len {}", v.a, v.b) })
        });
        ev::violation(format!("{prop}|hook|{site}|{part}"), format!("unsafe precondition false at {site} ({what}) in case {}", desc()), case());
    }
    if let Err(msg) = r {
        if !msg.starts_with("verif-hooks:") {
            st.safe_panics += 1;
            *st.safe_panic_sites.entry(ev::panic_site(&msg)).or_insert(0) += 1;
        }
    }
}

// ------------------------------------------------------------------ part: frames
fn convert_all<T: Pixel>(y: &Yuv<T>, deep: bool, st: &mut Stats) {
    let r = Rgb::try_from(y);
    st.conversions += 1;
    std::hint::black_box(&r);
    if deep {
        std::hint::black_box(LinearRgb::try_from(y).is_ok());
        std::hint::black_box(Xyb::try_from(y).is_ok());
        st.conversions += 2;
        // and back into a frame of the same layout (exercises the encoder's unchecked writes)
        if let Ok(r) = r {
            let back: Result<Yuv<T>, _> = Yuv::try_from((&r, y.config()));
            std::hint::black_box(back.is_ok());
            st.conversions += 1;
        }
    }
}

fn frame_case<T: Pixel>(s: &FrameSpec, rng: &mut Rng, sel: &ChildSel, idx: u64, deep: bool, st: &mut Stats) {
    let frame: Frame<T> = frames::build(s, rng);
    match Yuv::new(frame, s.config()) {
        Ok(y) => {
            st.accepted += 1;
            let (sx, sy) = (s.ss.0 as usize, s.ss.1 as usize);
            let need = (s.w >> sx, s.h >> sy);
            // "a frame whose chroma planes cannot cover the luma plane at the declared subsampling is rejected"
            let need_cover = ((s.w + (1 << sx) - 1) >> sx, (s.h + (1 << sy) - 1) >> sy);
            if s.cu.0 < need_cover.0 || s.cu.1 < need_cover.1 || s.cv.0 < need_cover.0 || s.cv.1 < need_cover.1 {
                st.undersized_accepted += 1;
                ev::violation(
                    "C07|accepted-undersized-chroma",
                    format!("Yuv::new accepted chroma planes {:?}/{:?} that cannot cover {}x{} luma at subsampling {:?} (need {:?})", s.cu, s.cv, s.w, s.h, s.ss, need),
                    s.json(),
                );
            }
            sel.announce(idx, &s.desc());
            convert_all(&y, deep, st);
        }
        Err(e) => {
            *st.rejected.entry(format!("{e:?}")).or_insert(0) += 1;
        }
    }
}

fn part_frames(ctx: &Ctx, sel: &ChildSel, glob: &Mutex<Stats>, only_small: bool) {
    let full = ctx.tier == Tier::Thorough && !ctx.flag("lite") && !only_small;
    let lumas: Vec<(usize, usize)> = frames::luma_sizes().into_iter().filter(|(w, h)| !only_small || w * h <= 16).collect();
    let per = frames::specs_per_luma(full);
    let lite = ctx.flag("lite");
    let work = |li: u64, st: &mut Stats| {
        let (w, h) = lumas[li as usize];
        let mut rng = Rng::new(ctx.seed, 0x0C07_0000 + li);
        frames::for_luma(w, h, full && w <= 12, |loc, s| {
            let idx = li * per + loc;
            if !sel.wants(idx) {
                return;
            }
            if w > 12 {
                let c = (w >> s.ss.0, h >> s.ss.1);
                let near = |a: usize, b: usize| a + 1 >= b && a <= b + 1;
                if !(near(s.cu.0, c.0) && near(s.cu.1, c.1)) || !(s.pad == frames::PADS[0] || s.pad == frames::PADS[7]) || !(s.depth == 8 && s.u8s || s.depth == 10) {
                    return;
                }
            }
            if (only_small || lite) && !(s.model().well_formed() || loc % 97 == 0) {
                // Miri / memcheck: accepted frames (the ones that get converted) plus a thin slice of rejected ones
                return;
            }
            if only_small && !(s.pad == frames::PADS[0] || s.pad == frames::PADS[4] || s.pad == frames::PADS[7]) {
                return;
            }
            let deep = loc % 8 == 0;
            run_case("C07", "frames", &|| s.desc(), &|| s.json(), st, |st| {
                if s.u8s {
                    frame_case::<u8>(&s, &mut rng.clone(), sel, idx, deep, st);
                } else {
                    frame_case::<u16>(&s, &mut rng.clone(), sel, idx, deep, st);
                }
            });
            rng.next();
        });
    };
    if sel.child {
        let mut st = Stats::default();
        for li in 0..lumas.len() as u64 {
            work(li, &mut st);
        }
        glob.lock().unwrap().merge(&st);
    } else {
        ev::par_ranges("C07", lumas.len() as u64, 1, |_w, a, _b| {
            let mut st = Stats::default();
            work(a, &mut st);
            glob.lock().unwrap().merge(&st);
        });
    }
}

// ------------------------------------------------------------------ part: tamper
const TAMPER_OPS: usize = 36;
fn tamper_op<T: Pixel>(f: &mut Frame<T>, pl: usize, op: usize, rng: &mut Rng) -> String {
    let small: Plane<T> = Plane::new(1, 1, 0, 0, 0, 0);
    let p = &mut f.planes[pl];
    match op {
        0 => {
            p.cfg.stride = p.cfg.stride.saturating_sub(1 + rng.below(8) as usize);
            "stride-=k".into()
        }
        1 => {
            p.cfg.stride = 0;
            "stride=0".into()
        }
        2 => {
            p.cfg.stride += 1 + rng.below(64) as usize;
            "stride+=k".into()
        }
        3 => {
            p.cfg.stride = p.cfg.width;
            "stride=width".into()
        }
        4 => {
            p.cfg.width += 1 + rng.below(70) as usize;
            "width+=k".into()
        }
        5 => {
            p.cfg.height += 1 + rng.below(70) as usize;
            "height+=k".into()
        }
        6 => {
            p.cfg.width = p.cfg.stride + 1;
            "width=stride+1".into()
        }
        7 => {
            p.cfg.xorigin += 1 + rng.below(70) as usize;
            "xorigin+=k".into()
        }
        8 => {
            p.cfg.yorigin += 1 + rng.below(70) as usize;
            "yorigin+=k".into()
        }
        9 => {
            p.cfg.yorigin = usize::MAX / 2;
            "yorigin=huge".into()
        }
        10 => {
            let mut s = small;
            std::mem::swap(&mut p.data, &mut s.data);
            "data=64-element-buffer".into()
        }
        11 => {
            let mut s: Plane<T> = Plane::new(0, 0, 0, 0, 0, 0);
            std::mem::swap(&mut p.data, &mut s.data);
            "data=empty-buffer".into()
        }
        12 => {
            p.cfg.width = 1 << 32;
            p.cfg.height = 1 << 32;
            p.cfg.stride = 0;
            "w=h=2^32,stride=0".into()
        }
        13 => {
            p.cfg.height = 1 << 44;
            p.cfg.stride = 0;
            "h=2^44,stride=0".into()
        }
        14 => {
            p.cfg.width = usize::MAX;
            "width=usize::MAX".into()
        }
        15 => {
            p.cfg.height = usize::MAX;
            "height=usize::MAX".into()
        }
        16 => {
            p.cfg.stride = usize::MAX / 2;
            "stride=huge".into()
        }
        17 => {
            p.cfg.alloc_height = 0;
            "alloc_height=0".into()
        }
        18 => {
            p.cfg.xdec = (p.cfg.xdec + 1) % 3;
            "xdec+1".into()
        }
        19 => {
            p.cfg.ydec = (p.cfg.ydec + 1) % 3;
            "ydec+1".into()
        }
        20 => {
            // from_slice with exactly the visible data (stride == width): legal
            let (w, h) = (p.cfg.width.clamp(1, 64), p.cfg.height.clamp(1, 64));
            let data: Vec<T> = (0..w * h).map(|i| T::cast_from((i % 200) as u32)).collect();
            let (xd, yd) = (p.cfg.xdec, p.cfg.ydec);
            *p = Plane::from_slice(&data, w);
            p.cfg.xdec = xd;
            p.cfg.ydec = yd;
            "from_slice(exact)".into()
        }
        21 => {
            // from_slice one row short, cfg.height patched back
            let (w, h) = (p.cfg.width.clamp(1, 64), p.cfg.height.clamp(2, 64));
            let data: Vec<T> = (0..w * (h - 1)).map(|i| T::cast_from((i % 200) as u32)).collect();
            let (xd, yd) = (p.cfg.xdec, p.cfg.ydec);
            *p = Plane::from_slice(&data, w);
            p.cfg.xdec = xd;
            p.cfg.ydec = yd;
            p.cfg.height = h;
            "from_slice(short),height patched".into()
        }
        22 => {
            p.cfg.width = p.cfg.width.saturating_sub(1);
            "width-=1".into()
        }
        23 => {
            p.cfg.height = p.cfg.height.saturating_sub(1);
            "height-=1".into()
        }
        24 => {
            p.cfg.xorigin = p.cfg.stride;
            "xorigin=stride".into()
        }
        25 => {
            p.cfg.width = 0;
            "width=0".into()
        }
        26 => {
            p.cfg.height = 0;
            "height=0".into()
        }
        27 => {
            p.cfg.stride = p.cfg.stride / 2;
            "stride/=2".into()
        }
        28 => {
            p.cfg.xpad += 1000;
            p.cfg.ypad += 1000;
            "pad fields += 1000".into()
        }
        29 => {
            p.cfg.height += 1;
            "height+=1".into()
        }
        30 => {
            p.cfg.width += 1;
            "width+=1".into()
        }
        31 => {
            p.cfg.yorigin += 1;
            "yorigin+=1".into()
        }
        32 => {
            p.cfg.xorigin += 1;
            "xorigin+=1".into()
        }
        33 => {
            // the plane ends exactly at the end of its buffer, then grows by one row / one column
            p.cfg.height = p.cfg.alloc_height.saturating_sub(p.cfg.yorigin) + 1;
            "height=rows-left+1".into()
        }
        34 => {
            p.cfg.width = p.cfg.stride.saturating_sub(p.cfg.xorigin);
            p.cfg.height = p.cfg.alloc_height.saturating_sub(p.cfg.yorigin);
            "fill-to-buffer-end".into()
        }
        _ => "none".into(),
    }
}

const TAMPER_GEOS: [(usize, usize, (u8, u8), usize); 5] = [(4, 4, (0, 0), 0), (8, 8, (1, 1), 0), (12, 6, (1, 0), 7), (4, 8, (2, 2), 1), (1, 1, (0, 0), 0)];

fn tamper_count(ctx: &Ctx) -> u64 {
    let single = (TAMPER_GEOS.len() * 2 * 3 * TAMPER_OPS) as u64;
    single + if ctx.flag("lite") { 300 } else { ctx.pick(4000, 100_000) }
}

fn tamper_case<T: Pixel>(ctx: &Ctx, idx: u64, sel: &ChildSel, st: &mut Stats) {
    let single = (TAMPER_GEOS.len() * 2 * 3 * TAMPER_OPS) as u64;
    let mut rng = Rng::new(ctx.seed, 0x7A3_0000 + idx);
    let (gi, pls_ops): (usize, Vec<(usize, usize)>) = if idx < single {
        let k = idx as usize;
        let op = k % TAMPER_OPS;
        let pl = (k / TAMPER_OPS) % 3;
        let gi = (k / (TAMPER_OPS * 3 * 2)) % TAMPER_GEOS.len();
        (gi, vec![(pl, op)])
    } else {
        let n = 2 + rng.below(2) as usize;
        (rng.below(TAMPER_GEOS.len() as u64) as usize, (0..n).map(|_| (rng.below(3) as usize, rng.below(TAMPER_OPS as u64) as usize)).collect())
    };
    let (w, h, ss, pad) = TAMPER_GEOS[gi];
    let mut f: Frame<T> = mk_frame(w, h, ss, pad, |p, x, y| ((p * 31 + x * 7 + y * 3) % 200) as u32);
    let mut names = Vec::new();
    for (pl, op) in &pls_ops {
        names.push(format!("plane{pl}:{}", tamper_op(&mut f, *pl, *op, &mut rng)));
    }
    let depth = if std::mem::size_of::<T>() == 1 { 8 } else { 10 };
    let cfg = cfg_full(MC::BT709, TC::BT1886, CP::BT709, false, depth, ss);
    let desc = format!("{w}x{h} ss={ss:?} pad={pad} {} ops=[{}]", if depth == 8 { "u8" } else { "u16" }, names.join(", "));
    *st.edges.entry(format!("tamper:{}", names.first().map_or("", |s| s.split(':').nth(1).unwrap_or("")))).or_insert(0) += 1;
    sel.announce(idx, &desc);
    match Yuv::new(f, cfg) {
        Ok(y) => {
            st.accepted += 1;
            convert_all(&y, true, st);
        }
        Err(e) => {
            *st.rejected.entry(format!("{e:?}")).or_insert(0) += 1;
        }
    }
}

fn part_tamper(ctx: &Ctx, sel: &ChildSel, glob: &Mutex<Stats>) {
    let n = tamper_count(ctx);
    let single = (TAMPER_GEOS.len() * 2 * 3 * TAMPER_OPS) as u64;
    let work = |idx: u64, st: &mut Stats| {
        let u8s = if idx < single { (idx as usize / (TAMPER_OPS * 3)) % 2 == 0 } else { idx % 2 == 0 };
        let case = || J::obj().set("kind", "tamper").set("index", idx).set("seed", ctx.seed);
        run_case("C07", "tamper", &|| format!("tamper #{idx}"), &case, st, |st| {
            if u8s {
                tamper_case::<u8>(ctx, idx, sel, st)
            } else {
                tamper_case::<u16>(ctx, idx, sel, st)
            }
        });
    };
    drive(sel, n, glob, work);
}

fn drive(sel: &ChildSel, n: u64, glob: &Mutex<Stats>, work: impl Fn(u64, &mut Stats) + Sync) {
    if sel.child {
        let mut st = Stats::default();
        for idx in 0..n {
            if sel.wants(idx) {
                work(idx, &mut st);
            }
        }
        glob.lock().unwrap().merge(&st);
    } else {
        ev::par_ranges("C07", n, 64, |_w, a, b| {
            let mut st = Stats::default();
            for idx in a..b {
                work(idx, &mut st);
            }
            glob.lock().unwrap().merge(&st);
        });
    }
}

// ------------------------------------------------------------------ part: walks
enum Img {
    Y8(Yuv<u8>),
    Y16(Yuv<u16>),
    R(Rgb),
    L(LinearRgb),
    X(Xyb),
    H(Hsl),
}
impl Img {
    fn name(&self) -> &'static str {
        match self {
            Img::Y8(_) => "Yuv<u8>",
            Img::Y16(_) => "Yuv<u16>",
            Img::R(_) => "Rgb",
            Img::L(_) => "LinearRgb",
            Img::X(_) => "Xyb",
            Img::H(_) => "Hsl",
        }
    }
}

fn rand_cfg(rng: &mut Rng, depth: Option<u8>) -> YuvConfig {
    let n = depth.unwrap_or_else(|| 8 + rng.below(9) as u8);
    let ss = [(0u8, 0u8), (1, 0), (1, 1), (0, 1), (2, 0), (2, 2), (0, 2), (2, 1)];
    cfg_full(rng.pick(&MATRICES), rng.pick(&TRANSFERS), rng.pick(&PRIMARIES), rng.coin(), n, rng.pick(&ss))
}

fn hostile_image(rng: &mut Rng, n: usize, st: &mut Stats) -> Vec<[f32; 3]> {
    let mode = rng.below(3);
    // the caller's Vec has spare capacity beyond its length (as with_capacity + push produces): nothing may touch it
    let mut v: Vec<[f32; 3]> = Vec::with_capacity(n + 1 + (n % 3));
    v.extend((0..n).map(|_| {
            let p = match mode {
                0 => gen::hostile_px(rng),
                1 => [rng.unit() as f32, rng.unit() as f32, rng.unit() as f32],
                _ => [rng.range(-1.0, 2.0) as f32, gen::hostile(rng).0, rng.unit() as f32],
            };
            for c in p {
                st.fclasses[gen::fclass(c)] += 1;
            }
            st.pixels += 1;
            p
        }));
    v
}

fn walk_case(ctx: &Ctx, idx: u64, sel: &ChildSel, maxdim: u64, st: &mut Stats) {
    let mut rng = Rng::new(ctx.seed, 0x3A1C_0000 + idx);
    let (w, h) = (1 + rng.below(maxdim) as usize, 1 + rng.below(maxdim) as usize);
    let px = hostile_image(&mut rng, w * h, st);
    let mut img = match rng.below(5) {
        0 => Img::R(Rgb::new(px, w, h, rng.pick(&TRANSFERS), rng.pick(&PRIMARIES)).unwrap()),
        1 => Img::L(LinearRgb::new(px, w, h).unwrap()),
        2 => Img::X(Xyb::new(px, w, h).unwrap()),
        3 => Img::H(Hsl::new(px, w, h).unwrap()),
        _ => {
            // a real frame of random legal codes
            let ss = rng.pick(&[(0u8, 0u8), (1, 0), (1, 1), (0, 1), (2, 0), (2, 2)]);
            let (w2, h2) = ((w >> ss.0).max(1) << ss.0, (h >> ss.1).max(1) << ss.1);
            let mut c = rand_cfg(&mut rng, None);
            c.subsampling_x = ss.0;
            c.subsampling_y = ss.1;
            let pad = rng.pick(&[0usize, 1, 7, 17]);
            let maxv = (1u64 << c.bit_depth) - 1;
            let mut r2 = rng.clone();
            if c.bit_depth == 8 && rng.coin() {
                let f: Frame<u8> = mk_frame(w2, h2, ss, pad, |_, _, _| r2.below(256) as u32);
                Img::Y8(Yuv::new(f, c).unwrap())
            } else {
                let f: Frame<u16> = mk_frame(w2, h2, ss, pad, |_, _, _| r2.below(maxv + 1) as u32);
                Img::Y16(Yuv::new(f, c).unwrap())
            }
        }
    };
    let len = 1 + rng.below(6);
    let mut seq = gen::hash64(img.name().len() as u64);
    let mut desc = format!("{w}x{h} start={}", img.name());
    for step in 0..len {
        let from = img.name();
        let choice = rng.below(8);
        let t = rng.pick(&TRANSFERS);
        let p = rng.pick(&PRIMARIES);
        let cfg = rand_cfg(&mut rng, None);
        let cfg8 = rand_cfg(&mut rng, Some(8));
        desc.push_str(&format!(" ->{choice}"));
        sel.announce(idx, &format!("{desc} (step {step}, cfg {:?})", cfg));
        let next: Option<Img> = match img {
            Img::Y8(ref y) => match choice % 3 {
                0 => Rgb::try_from(y).ok().map(Img::R),
                1 => LinearRgb::try_from(y).ok().map(Img::L),
                _ => Xyb::try_from(y).ok().map(Img::X),
            },
            Img::Y16(ref y) => match choice % 3 {
                0 => Rgb::try_from(y).ok().map(Img::R),
                1 => LinearRgb::try_from(y).ok().map(Img::L),
                _ => Xyb::try_from(y).ok().map(Img::X),
            },
            Img::R(r) => match choice % 4 {
                0 => LinearRgb::try_from(r).ok().map(Img::L),
                1 => Xyb::try_from(r).ok().map(Img::X),
                2 => Yuv::<u16>::try_from((&r, cfg)).ok().map(Img::Y16),
                _ => Yuv::<u8>::try_from((r, cfg8)).ok().map(Img::Y8),
            },
            Img::L(l) => match choice % 5 {
                0 => Rgb::try_from((l, t, p)).ok().map(Img::R),
                1 => Some(Img::X(Xyb::from(l))),
                2 => Some(Img::H(Hsl::from(l))),
                3 => Yuv::<u16>::try_from((l, cfg)).ok().map(Img::Y16),
                _ => Yuv::<u8>::try_from((l, cfg8)).ok().map(Img::Y8),
            },
            Img::X(x) => match choice % 4 {
                0 => Some(Img::L(LinearRgb::from(x))),
                1 => Rgb::try_from((x, t, p)).ok().map(Img::R),
                2 => Yuv::<u16>::try_from((x, cfg)).ok().map(Img::Y16),
                _ => Yuv::<u8>::try_from((x, cfg8)).ok().map(Img::Y8),
            },
            Img::H(hh) => Some(Img::L(LinearRgb::from(hh))),
        };
        st.conversions += 1;
        match next {
            Some(n) => {
                let e = format!("{from}->{}", n.name());
                seq = gen::hash_mix(seq, gen::hash64(e.len() as u64 * 131 + e.as_bytes()[e.len() - 2] as u64 + (from.len() as u64) << 8));
                *st.edges.entry(e).or_insert(0) += 1;
                img = n;
            }
            None => {
                *st.edges.entry(format!("{from}->Err")).or_insert(0) += 1;
                break;
            }
        }
    }
    st.walk_seqs.insert(seq);
}

fn part_walks(ctx: &Ctx, sel: &ChildSel, glob: &Mutex<Stats>, n_override: Option<u64>) {
    let n = n_override.unwrap_or(if ctx.flag("lite") { 2000 } else { ctx.pick(200_000, 16_000_000) });
    let work = |idx: u64, st: &mut Stats| {
        let case = || J::obj().set("kind", "walk").set("index", idx).set("seed", ctx.seed).set("maxdim", 12);
        run_case("C07", "walks", &|| format!("walk #{idx}"), &case, st, |st| walk_case(ctx, idx, sel, 12, st));
    };
    drive(sel, n, glob, work);
}

// ------------------------------------------------------------------ part: floats
/// case idx -> (stage, chunk). Stages: 28 curve directions, xyb fwd/inv, hsl fwd/inv, full chain.
const FLOAT_STAGES: u64 = 28 + 5;
fn float_case(ctx: &Ctx, idx: u64, sel: &ChildSel, npx: usize, st: &mut Stats) {
    let stage = idx % FLOAT_STAGES;
    let mut rng = Rng::new(ctx.seed, 0xF10A_0000 + idx);
    // hostile pixels: specials first (every special lands in every stage over the chunks), then random
    let chunk = idx / FLOAT_STAGES;
    let mut px: Vec<[f32; 3]> = Vec::with_capacity(npx + 3); // spare capacity on purpose
    let nsp = gen::SPECIALS.len();
    for i in 0..npx {
        let p = if chunk == 0 && i < nsp {
            [gen::SPECIALS[i], gen::SPECIALS[(i * 7 + 3) % nsp], gen::SPECIALS[(i * 13 + 5) % nsp]]
        } else if chunk == 0 && i < nsp + 4 {
            [gen::nan_payloads()[i - nsp], 0.5, 1.0]
        } else {
            match i % 4 {
                0 => gen::hostile_px(&mut rng),
                1 | 2 => [f32::from_bits(rng.next() as u32), f32::from_bits(rng.next() as u32), f32::from_bits(rng.next() as u32)],
                _ => [rng.unit() as f32, gen::hostile(&mut rng).0, rng.range(-2.0, 3.0) as f32],
            }
        };
        for c in p {
            st.fclasses[gen::fclass(c)] += 1;
        }
        px.push(p);
    }
    st.pixels += npx as u64;
    let n = px.len();
    let name = if stage < 28 { format!("{:?}:{}", TRANSFERS[(stage / 2) as usize], if stage % 2 == 0 { "to_linear" } else { "to_gamma" }) } else { ["xyb-fwd", "xyb-inv", "hsl-fwd", "hsl-inv", "chain"][(stage - 28) as usize].to_string() };
    sel.announce(idx, &format!("floats stage={name} chunk={chunk} first={:?}", px[0].map(f32::to_bits)));
    *st.edges.entry(format!("floats:{name}")).or_insert(0) += 1;
    st.conversions += 1;
    if stage < 28 {
        let t = TRANSFERS[(stage / 2) as usize];
        let r = if stage % 2 == 0 { lin_of(t, px) } else { gam_of(t, px) };
        std::hint::black_box(r.is_ok());
    } else {
        match stage - 28 {
            0 => {
                std::hint::black_box(Xyb::from(LinearRgb::new(px, n, 1).unwrap()).width());
            }
            1 => {
                std::hint::black_box(LinearRgb::from(Xyb::new(px, n, 1).unwrap()).width());
            }
            2 => {
                std::hint::black_box(Hsl::from(LinearRgb::new(px, n, 1).unwrap()).width());
            }
            3 => {
                std::hint::black_box(LinearRgb::from(Hsl::new(px, n, 1).unwrap()).width());
            }
            _ => {
                let cfg = rand_cfg(&mut rng, None);
                let cfg = YuvConfig { subsampling_x: 0, subsampling_y: 0, ..cfg };
                let y: Result<Yuv<u16>, _> = Yuv::try_from((Xyb::new(px, n, 1).unwrap(), cfg));
                if let Ok(y) = y {
                    std::hint::black_box(Xyb::try_from(&y).is_ok());
                }
            }
        }
    }
}

fn part_floats(ctx: &Ctx, sel: &ChildSel, glob: &Mutex<Stats>, n_override: Option<(u64, usize)>) {
    let (chunks, npx) = n_override.unwrap_or(if ctx.flag("lite") { (4, 512) } else if sel.child { (ctx.pick(16, 256), 4096) } else { (ctx.pick(64, 16_384), 16_384) });
    let n = chunks * FLOAT_STAGES;
    let work = |idx: u64, st: &mut Stats| {
        let case = || J::obj().set("kind", "floats").set("index", idx).set("npx", npx).set("seed", ctx.seed);
        run_case("C07", "floats", &|| format!("floats #{idx}"), &case, st, |st| float_case(ctx, idx, sel, npx, st));
    };
    drive(sel, n, glob, work);
}

// ------------------------------------------------------------------ dimension-overflow cases
fn part_overflow(_ctx: &Ctx, sel: &ChildSel, glob: &Mutex<Stats>) {
    // images whose width*height wraps usize: if a constructor accepts one, converting it must not touch memory out of bounds
    let dims: [(usize, usize, usize); 5] = [(0, 1usize << 32, 1usize << 32), (4, (1usize << 63) + 2, 2), (0, 1usize << 63, 2), (1, usize::MAX, usize::MAX), (0, 1usize << 33, 1usize << 31)];
    let mut st = Stats::default();
    for (i, (len, w, h)) in dims.iter().copied().enumerate() {
        let idx = i as u64;
        if !sel.wants(idx) {
            continue;
        }
        let case = || J::obj().set("kind", "overflow").set("len", len).set("w", w).set("h", h);
        run_case("C07", "overflow", &|| format!("len={len} {w}x{h}"), &case, &mut st, |st| {
            let px = vec![[0.5f32; 3]; len];
            sel.announce(idx, &format!("overflow len={len} w={w} h={h}"));
            if let Ok(r) = Rgb::new(px.clone(), w, h, TC::SRGB, CP::BT709) {
                st.accepted += 1;
                let y: Result<Yuv<u8>, _> = Yuv::try_from((&r, cfg444(MC::BT709, false, 8)));
                std::hint::black_box(y.is_ok());
                st.conversions += 1;
            } else {
                *st.rejected.entry("ResolutionMismatch".into()).or_insert(0) += 1;
            }
            if let Ok(l) = LinearRgb::new(px.clone(), w, h) {
                st.accepted += 1;
                let y: Result<Yuv<u16>, _> = Yuv::try_from((l, cfg444(MC::BT709, true, 10)));
                std::hint::black_box(y.is_ok());
                st.conversions += 1;
            }
            if let Ok(x) = Xyb::new(px, w, h) {
                st.accepted += 1;
                let y: Result<Yuv<u16>, _> = Yuv::try_from((x, cfg444(MC::BT709, true, 10)));
                std::hint::black_box(y.is_ok());
                st.conversions += 1;
            }
        });
    }
    glob.lock().unwrap().merge(&st);
}

pub fn c07(ctx: &Ctx) {
    let sel = ChildSel::from_ctx(ctx);
    let part = ctx.arg("part").unwrap_or("all").to_string();
    let glob = Mutex::new(Stats::default());
    let mut parts_run = Vec::new();
    let mut run = |p: &str| {
        parts_run.push(p.to_string());
        match p {
            "frames" => part_frames(ctx, &sel, &glob, false),
            "tamper" => {
                part_tamper(ctx, &sel, &glob);
                part_overflow(ctx, &ChildSel { child: sel.child, shard: 0, nshards: 1, from: 0 }, &glob);
            }
            "walks" => part_walks(ctx, &sel, &glob, None),
            "floats" => part_floats(ctx, &sel, &glob, None),
            "miri" => part_miri(ctx, &sel, &glob),
            _ => {}
        }
    };
    if part == "all" {
        for p in ["frames", "tamper", "walks", "floats"] {
            run(p);
        }
    } else if part == "inproc" {
        // tampered frames can make the library request absurd allocations (a safe abort, but one that
        // cannot be caught in-process), so that part always runs in child processes
        for p in ["frames", "walks", "floats"] {
            run(p);
        }
    } else {
        run(&part);
    }
    let st = glob.lock().unwrap();
    ev::observe("parts", parts_run);
    ev::observe("cases", st.cases);
    ev::observe("frames_accepted", st.accepted);
    ev::observe("frames_rejected_by_error", J::Obj(st.rejected.iter().map(|(k, v)| (k.clone(), J::from(*v))).collect()));
    ev::observe("conversions_executed", st.conversions);
    ev::observe("safe_panics_observed", st.safe_panics);
    ev::observe("safe_panic_sites", J::Obj(st.safe_panic_sites.iter().map(|(k, v)| (k.clone(), J::from(*v))).collect()));
    ev::observe("hook_violations", st.hook_violations);
    ev::observe("undersized_chroma_frames_accepted", st.undersized_accepted);
    ev::observe("edge_histogram", J::Obj(st.edges.iter().map(|(k, v)| (k.clone(), J::from(*v))).collect()));
    ev::observe("distinct_walk_edge_sequences", st.walk_seqs.len());
    ev::observe("hostile_pixels_fed", st.pixels);
    let mut fc = J::obj();
    for (i, n) in gen::FCLASS_NAMES.iter().enumerate() {
        fc.put(n, st.fclasses[i]);
    }
    ev::observe("float_components_by_class", fc);
    ev::sample(J::obj().set("part", part.as_str()).set("cases", st.cases).set("accepted", st.accepted).set("conversions", st.conversions));
    ev::add_evals(st.cases);
    ev::add_nontrivial(st.accepted + st.walk_seqs.len() as u64 + st.edges.iter().filter(|(k, _)| k.starts_with("floats:") || k.starts_with("tamper:")).map(|(_, v)| *v).sum::<u64>());
    ev::exhaustive(false);
    ev::rule(
        "C07 workloads: (frames) the Plane::new frame family of C12 with every accepted frame decoded (and 1 in 8 also through LinearRgb/Xyb and re-encoded); (tamper) valid frames whose public cfg/data fields were edited \
         by one of 35 operations, singly on every plane and in random combinations, plus width*height products that wrap usize; (walks) seeded random walks of <=6 conversions over {Yuv<u8>,Yuv<u16>,Rgb,LinearRgb,Xyb,Hsl} \
         with sizes 1..=12 (incl. not divisible by the target subsampling) and hostile floats; (floats) every curve direction, XYB, HSL and the full chain on special values and random bit patterns. \
         non-trivial = accepted frames (converted) + distinct walk edge sequences + tamper/float cases; the observers are the hooks at the unsafe sites (Trap in-process, Record in children), std ub_checks, Miri, ASan, memcheck",
    );
    if !sel.child && st.hook_violations == 0 {
        // the monitor must actually have watched the unsafe sites
        let snap = vh::snapshot();
        let _ = snap;
    }
}

/// Miri sample: an explicit, small case list (enumerating the big family under Miri would cost more than running it).
enum MiriCase {
    Frame(FrameSpec),
    Tamper(u64),
    Walk(u64),
    Floats(u64),
    Overflow,
}
fn miri_cases(ctx: &Ctx) -> Vec<MiriCase> {
    let thorough = ctx.tier == Tier::Thorough;
    let mut v = Vec::new();
    let layouts = [(0u8, 0u8), (1, 0), (1, 1), (0, 1), (2, 0), (2, 2)];
    let pads = [frames::PADS[0], frames::PADS[4], frames::PADS[7], frames::PADS[5]];
    let mut k = 0usize;
    for w in 1..=8usize {
        for h in 1..=8usize {
            if w * h > 16 {
                continue;
            }
            for ss in layouts {
                if w % (1 << ss.0) != 0 || h % (1 << ss.1) != 0 {
                    continue;
                }
                for (pi, pad) in pads.iter().enumerate() {
                    for (u8s, depth) in [(true, 8u8), (false, 10)] {
                        k += 1;
                        // quick: a third of the well-formed specs (rotating), thorough: all
                        if !thorough && (k + pi) % 3 != (ctx.seed as usize) % 3 {
                            continue;
                        }
                        let c = (w >> ss.0, h >> ss.1);
                        v.push(MiriCase::Frame(FrameSpec { w, h, cu: c, cv: c, du: (ss.0 as usize, ss.1 as usize), dv: (ss.0 as usize, ss.1 as usize), ss, pad: *pad, u8s, depth }));
                    }
                }
            }
            // a few malformed ones per size (must be rejected; if accepted they get converted)
            let c = (w, h);
            v.push(MiriCase::Frame(FrameSpec { w, h, cu: (c.0.saturating_sub(1), c.1), cv: c, du: (0, 0), dv: (0, 0), ss: (0, 0), pad: (0, 0, 0), u8s: true, depth: 8 }));
            v.push(MiriCase::Frame(FrameSpec { w, h, cu: (1, 1), cv: (1, 1), du: (0, 0), dv: (0, 0), ss: (0, 0), pad: (0, 0, 0), u8s: false, depth: 10 }));
            v.push(MiriCase::Frame(FrameSpec { w, h, cu: (w >> 1, h >> 1), cv: (w >> 1, h >> 1), du: (1, 1), dv: (1, 1), ss: (1, 1), pad: (0, 0, 0), u8s: true, depth: 8 }));
            v.push(MiriCase::Frame(FrameSpec { w, h, cu: (w >> 2, h >> 2), cv: (w >> 2, h >> 2), du: (2, 2), dv: (2, 2), ss: (2, 2), pad: (1, 7, 0), u8s: false, depth: 10 }));
        }
    }
    let single = (TAMPER_GEOS.len() * 2 * 3 * TAMPER_OPS) as u64;
    for idx in 0..single {
        let gi = (idx as usize / (TAMPER_OPS * 3 * 2)) % TAMPER_GEOS.len();
        if (gi == 0 || gi == 3 || gi == 4) && (thorough || idx % 3 == ctx.seed % 3) {
            v.push(MiriCase::Tamper(idx));
        }
    }
    for idx in 0..(if thorough { 640 } else { 96 }) {
        v.push(MiriCase::Walk(idx));
    }
    for idx in 0..FLOAT_STAGES * (if thorough { 3 } else { 1 }) {
        v.push(MiriCase::Floats(idx));
    }
    v.push(MiriCase::Overflow);
    v
}

fn part_miri(ctx: &Ctx, sel: &ChildSel, glob: &Mutex<Stats>) {
    let quiet = ChildSel { child: false, shard: 0, nshards: 1, from: 0 };
    let cases = miri_cases(ctx);
    let mut st = Stats::default();
    let npx = gen::SPECIALS.len() + 4 + 10;
    for (i, c) in cases.iter().enumerate() {
        let idx = i as u64;
        if !sel.wants(idx) {
            continue;
        }
        match c {
            MiriCase::Frame(s) => {
                let mut rng = Rng::new(ctx.seed, 0x0C07_5000 + idx);
                sel.announce(idx, &format!("frame {}", s.desc()));
                run_case("C07", "frames", &|| s.desc(), &|| s.json(), &mut st, |st| {
                    if s.u8s {
                        frame_case::<u8>(s, &mut rng, &quiet, idx, true, st)
                    } else {
                        frame_case::<u16>(s, &mut rng, &quiet, idx, true, st)
                    }
                });
            }
            MiriCase::Tamper(t) => {
                sel.announce(idx, &format!("tamper #{t}"));
                let u8s = (*t as usize / (TAMPER_OPS * 3)) % 2 == 0;
                let case = || J::obj().set("kind", "tamper").set("index", *t).set("seed", ctx.seed);
                run_case("C07", "tamper", &|| format!("tamper #{t}"), &case, &mut st, |st| {
                    if u8s {
                        tamper_case::<u8>(ctx, *t, &quiet, st)
                    } else {
                        tamper_case::<u16>(ctx, *t, &quiet, st)
                    }
                });
            }
            MiriCase::Walk(wi) => {
                sel.announce(idx, &format!("walk #{wi} (dims <= 4)"));
                let case = || J::obj().set("kind", "walk").set("index", *wi).set("maxdim", 4).set("seed", ctx.seed);
                run_case("C07", "walks", &|| format!("walk #{wi}"), &case, &mut st, |st| walk_case(ctx, *wi, &quiet, 4, st));
            }
            MiriCase::Floats(fi) => {
                sel.announce(idx, &format!("floats #{fi}"));
                let case = || J::obj().set("kind", "floats").set("index", *fi).set("npx", npx).set("seed", ctx.seed);
                run_case("C07", "floats", &|| format!("floats #{fi}"), &case, &mut st, |st| float_case(ctx, *fi, &quiet, npx, st));
            }
            MiriCase::Overflow => {
                sel.announce(idx, "dimension-overflow constructors");
                part_overflow(ctx, &quiet, glob);
            }
        }
    }
    glob.lock().unwrap().merge(&st);
}

// ------------------------------------------------------------------ C13
fn c13_configs() -> Vec<(TC, CP, MC, bool, u8)> {
    let mut v = Vec::new();
    for t in TRANSFERS {
        for p in PRIMARIES {
            for m in MATRICES {
                for full in [false, true] {
                    for n in 8u8..=16 {
                        v.push((t, p, m, full, n));
                    }
                }
            }
        }
    }
    v
}

fn frame_of<T: Pixel>(y: &Yuv<T>) -> Frame<T> {
    Frame { planes: [y.data()[0].clone(), y.data()[1].clone(), y.data()[2].clone()] }
}

fn check_codes<T: Pixel>(y: &Yuv<T>, what: &str, cfgj: &J) -> u64 {
    let n = y.config().bit_depth;
    let maxv = (1u32 << n) - 1;
    let mut bad = 0u64;
    let mut cnt = 0u64;
    for pl in 0..3 {
        let p = &y.data()[pl];
        for yy in 0..p.cfg.height {
            for xx in 0..p.cfg.width {
                cnt += 1;
                if u32::cast_from(p.p(xx, yy)) > maxv {
                    bad += 1;
                }
            }
        }
    }
    if bad > 0 {
        ev::violation(format!("C13|code-out-of-range|{what}|n={n}"), format!("{bad} samples above 2^{n}-1 in the image produced by {what}"), cfgj.clone().set("what", what));
    }
    if let Err(e) = Yuv::new(frame_of(y), y.config()) {
        ev::violation(format!("C13|not-rewrappable|{what}|{e:?}"), format!("Yuv::new rejects the image produced by {what}: {e:?}"), cfgj.clone().set("what", what));
    }
    cnt
}

/// all conversions for one config on one hostile image; returns (#conversions, #samples checked)
fn c13_case(ctx: &Ctx, ci: u64, cfgt: (TC, CP, MC, bool, u8), st: &mut Stats) -> (u64, u64) {
    let (t, p, m, full, n) = cfgt;
    let mut rng = Rng::new(ctx.seed, 0x0C13_0000 + ci);
    let layouts = [(0u8, 0u8), (1, 0), (1, 1), (0, 1), (2, 0), (2, 2)];
    let ss = layouts[(ci % 6) as usize];
    let cfg = cfg_full(m, t, p, full, n, ss);
    // sizes vary from config to config (a thread sees growing and shrinking images), always divisible by 4
    let hh = if ctx.flag("lite") { 4 } else { ctx.pick(24, 128) };
    let (mut w, mut h) = ([8usize, 4, 16, 12][(ci % 4) as usize], [hh, 4, hh / 2, 8][((ci / 4) % 4) as usize].max(4) & !3);
    // an axis that is not subsampled may have any length (odd included); every 16th case is the empty image
    if ss.0 == 0 && ci % 3 == 1 {
        w += 1;
    }
    if ss.1 == 0 && ci % 2 == 1 {
        h += 1;
    }
    if ci % 16 == 9 {
        w = 0;
        h = 0;
    }
    // a request the library refuses (3x3 into 4:2:0 panics by design) must not disturb the valid conversions that follow it
    if ci % 32 == 5 {
        let bad = Rgb::new(vec![[0.5f32; 3]; 9], 3, 3, t, p).unwrap();
        let refused = ev::guarded(|| Yuv::<u16>::try_from((&bad, cfg_full(m, t, p, full, n, (1, 1)))).is_ok());
        std::hint::black_box(refused.is_ok());
    }
    let px = hostile_image(&mut rng, w * h, st);
    let cj = J::obj().set("kind", "c13").set("config_index", ci).set("cfg", cfg_json(&cfg)).set("seed", ctx.seed).set("tier", if ctx.tier == Tier::Quick { "quick" } else { "thorough" }).set("lite", ctx.flag("lite"));
    let mut conv = 0u64;
    let mut samples = 0u64;
    let lin = LinearRgb::new(px.clone(), w, h).unwrap();
    let rgb = Rgb::new(px.clone(), w, h, t, p).unwrap();
    let xyb = Xyb::new(px.clone(), w, h).unwrap();
    let hsl = Hsl::new(px.clone(), w, h).unwrap();
    macro_rules! must {
        ($what:expr, $e:expr) => {{
            conv += 1;
            match $e {
                Ok(v) => Some(v),
                Err(e) => {
                    ev::violation(format!("C13|unexpected-error|{}", $what), format!("{} failed for a supported config: {e:?}", $what), cj.clone().set("what", $what));
                    None
                }
            }
        }};
    }
    must!("LinearRgb::try_from(Rgb)", LinearRgb::try_from(rgb.clone()));
    must!("Xyb::try_from(Rgb)", Xyb::try_from(rgb.clone()));
    must!("Rgb::try_from((LinearRgb,t,p))", Rgb::try_from((lin.clone(), t, p)));
    must!("Rgb::try_from((Xyb,t,p))", Rgb::try_from((xyb.clone(), t, p)));
    std::hint::black_box(Xyb::from(lin.clone()).width());
    std::hint::black_box(LinearRgb::from(xyb.clone()).width());
    std::hint::black_box(Hsl::from(lin.clone()).width());
    std::hint::black_box(LinearRgb::from(hsl).width());
    conv += 4;
    macro_rules! yuvs {
        ($T:ty) => {{
            let a: Option<Yuv<$T>> = must!("Yuv::try_from((&Rgb,cfg))", Yuv::try_from((&rgb, cfg)));
            let b: Option<Yuv<$T>> = must!("Yuv::try_from((LinearRgb,cfg))", Yuv::try_from((lin.clone(), cfg)));
            let c: Option<Yuv<$T>> = must!("Yuv::try_from((Xyb,cfg))", Yuv::try_from((xyb.clone(), cfg)));
            for (what, y) in [("Yuv::try_from((&Rgb,cfg))", &a), ("Yuv::try_from((LinearRgb,cfg))", &b), ("Yuv::try_from((Xyb,cfg))", &c)] {
                if let Some(y) = y {
                    samples += check_codes(y, what, &cj);
                    must!("Rgb::try_from(&Yuv)", Rgb::try_from(y));
                    must!("Xyb::try_from(&Yuv)", Xyb::try_from(y));
                }
            }
        }};
    }
    yuvs!(u16);
    if n == 8 {
        yuvs!(u8);
    }
    // finite in -> finite out
    let unit: Vec<[f32; 3]> = (0..w * h)
        .map(|i| match i % 4 {
            0 => [rng.unit_bits(), rng.unit_bits(), rng.unit_bits()],
            1 => {
                let v = [0.0f32, 1.0, f32::MIN_POSITIVE, 1e-45, 0.5, 0.99999994];
                if i % 8 == 1 {
                    // exact cube corners (pure primaries saturate the chroma range) and exact greys of tiny magnitude
                    let c = i / 8;
                    if c % 2 == 0 { [(c & 2) as f32 / 2.0, (c & 4) as f32 / 4.0, (c & 8) as f32 / 8.0] } else { [rng.pick(&v); 3] }
                } else {
                    [rng.pick(&v), rng.pick(&v), rng.pick(&v)]
                }
            }
            _ => [rng.unit() as f32, rng.unit() as f32, rng.unit() as f32],
        })
        .collect();
    let fin = |what: &str, data: &[[f32; 3]]| {
        if let Some(i) = data.iter().position(|q| q.iter().any(|c| !c.is_finite())) {
            ev::violation(
                format!("C13|non-finite-from-unit|{what}|{t:?}"),
                format!("{what}: input {:?} in [0,1]^3 produced {:?}", unit[i], data[i]),
                cj.clone().set("what", what).set("pixel", px_json(unit[i])),
            );
        }
    };
    let r = Rgb::new(unit.clone(), w, h, t, p).unwrap();
    if let Some(l) = must!("LinearRgb::try_from(Rgb)", LinearRgb::try_from(r.clone())) {
        fin("LinearRgb::try_from(Rgb)", l.data());
    }
    if let Some(x) = must!("Xyb::try_from(Rgb)", Xyb::try_from(r)) {
        fin("Xyb::try_from(Rgb)", x.data());
    }
    let l = LinearRgb::new(unit.clone(), w, h).unwrap();
    if let Some(g) = must!("Rgb::try_from((LinearRgb,t,p))", Rgb::try_from((l.clone(), t, p))) {
        fin("Rgb::try_from((LinearRgb,t,p))", g.data());
    }
    fin("Hsl::from(LinearRgb)", Hsl::from(l.clone()).data());
    fin("Xyb::from(LinearRgb)", Xyb::from(l.clone()).data());
    fin("LinearRgb::from(Xyb::from(LinearRgb))", LinearRgb::from(Xyb::from(l.clone())).data());
    fin("LinearRgb::from(Hsl::from(LinearRgb))", LinearRgb::from(Hsl::from(l)).data());
    conv += 4;
    (conv, samples)
}

/// Environment part of C13 (child processes only: what it looks for ends the process): every kind of conversion on
/// a thread whose stack is 128 KiB (the default of musl's and of many embedders' secondary threads), and
/// conversions made while a thread is being torn down (from the destructor of a thread-local).
fn c13_env(ctx: &Ctx, sel: &ChildSel) {
    use crate::mon_cold::{run_op, OPS};
    let mut n = 0u64;
    let variants: u64 = ctx.pick(6, 24);
    for (oi, op) in OPS.iter().enumerate() {
        for v in 0..variants {
            let ci = oi as u64 * 100 + v;
            if !sel.wants(ci) {
                continue;
            }
            sel.announce(ci, &format!("{op} (variant {v}) on a thread with a 128 KiB stack"));
            let op2 = op.to_string();
            let variant = ctx.seed * 1000 + v;
            let h = std::thread::Builder::new().stack_size(128 * 1024).spawn(move || run_op(&op2, variant, v as usize).len());
            match h.map(|h| h.join()) {
                Ok(Ok(_)) => n += 1,
                Ok(Err(_)) => ev::violation(format!("C13|panic|small-stack|{op}"), format!("{op} panicked on a 128 KiB-stack thread"), J::obj().set("kind", "c13-env").set("op", *op).set("variant", variant)),
                Err(e) => ev::note(format!("could not spawn a small-stack thread: {e}")),
            }
        }
    }
    // conversions during thread teardown, with the harness's thread-local registered before / after the thread's first conversion
    struct AtExit(u64);
    impl Drop for AtExit {
        fn drop(&mut self) {
            // several variants, so that every primaries / transfer / matrix family is used during teardown
            for v in 0..8 {
                for op in OPS {
                    let _ = std::hint::black_box(run_op(op, self.0 + v, 5));
                }
            }
        }
    }
    thread_local! { static AT_EXIT: std::cell::RefCell<Option<AtExit>> = const { std::cell::RefCell::new(None) }; }
    for order in 0..2u64 {
        let ci = 5000 + order;
        if !sel.wants(ci) {
            continue;
        }
        sel.announce(ci, &format!("conversions from a thread-local destructor ({})", if order == 0 { "registered before the thread's first conversion" } else { "registered after it" }));
        let variant = ctx.seed * 1000 + order;
        let r = std::thread::spawn(move || {
            if order == 0 {
                AT_EXIT.with(|c| *c.borrow_mut() = Some(AtExit(variant)));
            }
            for v in 0..8 {
                for op in OPS {
                    let _ = std::hint::black_box(run_op(op, variant + v, 3));
                }
            }
            if order == 1 {
                AT_EXIT.with(|c| *c.borrow_mut() = Some(AtExit(variant)));
            }
        })
        .join();
        match r {
            Ok(()) => n += 1,
            Err(_) => ev::violation("C13|panic|thread-teardown", "a conversion panicked around thread teardown".to_string(), J::obj().set("kind", "c13-env").set("order", order)),
        }
    }
    ev::observe("environment_cases_completed", n);
    ev::add_evals(n * 5);
    ev::add_nontrivial(n);
    ev::rule("environment part: every conversion kind on a 128 KiB-stack thread, and from a thread-local destructor during thread teardown; run in child processes so that an abort is attributed to its case");
}

pub fn c13(ctx: &Ctx) {
    let sel = ChildSel::from_ctx(ctx);
    if ctx.arg("part") == Some("env") {
        return c13_env(ctx, &sel);
    }
    let cfgs = c13_configs();
    let glob = Mutex::new((Stats::default(), 0u64, 0u64, 0u64));
    let lite = ctx.flag("lite");
    let work = |ci: u64, acc: &mut (Stats, u64, u64, u64)| {
        if lite && ci % 7 != (ctx.seed % 7) {
            return;
        }
        let cfgt = cfgs[(ci % cfgs.len() as u64) as usize];
        sel.announce(ci, &format!("{cfgt:?}"));
        let mut st = Stats::default();
        let before = vh::thread_violations();
        let r = ev::guarded(|| c13_case(ctx, ci, cfgt, &mut st));
        acc.0.merge(&st);
        acc.1 += 1;
        match r {
            Ok((c, s)) => {
                acc.2 += c;
                acc.3 += s;
            }
            Err(msg) => {
                let (t, p, m, full, n) = cfgt;
                ev::violation(
                    format!("C13|panic|{}", ev::panic_site(&msg)),
                    format!("a conversion panicked for supported config {cfgt:?}: {msg}"),
                    J::obj().set("kind", "c13").set("config_index", ci).set("cfg", cfg_json(&cfg_full(m, t, p, full, n, (0, 0)))).set("panic", msg).set("seed", ctx.seed).set("tier", if ctx.tier == Tier::Quick { "quick" } else { "thorough" }).set("lite", ctx.flag("lite")),
                );
            }
        }
        if vh::thread_violations() > before {
            let site = vh::thread_last_violation().map_or("unknown", |v| vh::SITE_NAMES[v.site]);
            ev::violation(format!("C13|hook|{site}"), format!("unsafe precondition false at {site} for config {cfgt:?}"), J::obj().set("kind", "c13").set("config_index", ci).set("seed", ctx.seed).set("tier", if ctx.tier == Tier::Quick { "quick" } else { "thorough" }).set("lite", ctx.flag("lite")));
        }
    };
    // thorough: every config several times with fresh hostile pixels (the case index seeds the generator)
    let rounds: u64 = if lite { 1 } else { ctx.pick(1, 12) };
    let ncases = cfgs.len() as u64 * rounds;
    if sel.child {
        let mut acc = (Stats::default(), 0, 0, 0);
        for ci in 0..ncases {
            if sel.wants(ci) {
                work(ci, &mut acc);
            }
        }
        let mut g = glob.lock().unwrap();
        g.0.merge(&acc.0);
        g.1 += acc.1;
        g.2 += acc.2;
        g.3 += acc.3;
    } else {
        ev::par_ranges("C13", ncases, 8, |_w, a, b| {
            let mut acc = (Stats::default(), 0, 0, 0);
            for ci in a..b {
                work(ci, &mut acc);
            }
            let mut g = glob.lock().unwrap();
            g.0.merge(&acc.0);
            g.1 += acc.1;
            g.2 += acc.2;
            g.3 += acc.3;
        });
    }
    // bulk frames: tens of thousands of identical extreme pixels in one image (all white at 16 and 12 bit, all NaN, all +inf),
    // and tens of thousands of small conversions in a row on one thread: totals and counters must not overflow
    let mut bulk = 0u64;
    if !sel.child || sel.shard == 0 {
        let nbulk = if lite { 70_001usize } else { 70_001 };
        let fills: [(&str, [f32; 3]); 5] = [("white", [1.0; 3]), ("nan", [f32::NAN; 3]), ("inf", [f32::INFINITY; 3]), ("neg-inf", [f32::NEG_INFINITY; 3]), ("huge", [3e38; 3])];
        let idx0 = cfgs.len() as u64 * 1000;
        for (k, (name, fill)) in fills.iter().enumerate() {
            for (depth, npx) in [(16u8, nbulk), (12, if lite { nbulk } else { 1_060_000 }), (8, nbulk)] {
                sel.announce(idx0 + k as u64 * 8 + depth as u64 % 8, &format!("bulk frame {name} x{npx} depth {depth}"));
                let r = ev::guarded(|| {
                    let px = vec![*fill; npx];
                    let cfg = cfg_full(MC::BT709, TC::BT1886, CP::BT709, depth != 12, depth, (0, 0));
                    let y: Result<Yuv<u16>, _> = Yuv::try_from((&Rgb::new(px.clone(), npx, 1, TC::BT1886, CP::BT709).unwrap(), cfg));
                    let y2: Result<Yuv<u16>, _> = Yuv::try_from((LinearRgb::new(px.clone(), npx, 1).unwrap(), cfg));
                    let x = Xyb::from(LinearRgb::new(px, npx, 1).unwrap());
                    let y3: Result<Yuv<u16>, _> = Yuv::try_from((x, cfg));
                    for y in [y, y2, y3].into_iter().flatten() {
                        let _ = Rgb::try_from(&y);
                    }
                });
                bulk += 4;
                if let Err(msg) = r {
                    ev::violation(format!("C13|panic|bulk-frame|{}", ev::panic_site(&msg)), format!("a {npx}-pixel image of {name} pixels at {depth} bit: {msg}"), J::obj().set("kind", "c13-bulk").set("fill", *name).set("pixels", npx).set("depth", depth));
                }
            }
        }
        // many small conversions in a row on this thread
        sel.announce(idx0 + 100, "70000 small conversions in a row");
        let r = ev::guarded(|| {
            let f8: Frame<u8> = mk_frame(2, 2, (0, 0), 0, |_, x, y| (x * 50 + y * 90 + 20) as u32);
            for k in 0..70_000u32 {
                let unspec = cfg_full(if k % 2 == 0 { MC::Unspecified } else { MC::BT709 }, TC::Unspecified, CP::Unspecified, k % 3 == 0, 8, (0, 0));
                let y = Yuv::new(f8.clone(), unspec).expect("well-formed");
                if k % 16 == 0 {
                    let _ = Xyb::try_from(&y);
                    let l = LinearRgb::new(vec![[0.2, 0.4, 0.6]; 4], 2, 2).unwrap();
                    let _ = Yuv::<u8>::try_from((l, unspec));
                    let _ = Rgb::new(vec![[0.5; 3]; 1], 1, 1, TC::Unspecified, CP::Unspecified);
                }
            }
        });
        bulk += 70_000;
        if let Err(msg) = r {
            ev::violation(format!("C13|panic|many-calls|{}", ev::panic_site(&msg)), format!("after tens of thousands of small conversions on one thread: {msg}"), J::obj().set("kind", "c13-many-calls"));
        }
    }
    ev::observe("bulk_frame_and_many_call_conversions", bulk);
    ev::add_evals(bulk);
    let g = glob.lock().unwrap();
    ev::observe("configs_run", g.1);
    ev::observe("configs_total", cfgs.len());
    ev::observe("conversions_executed", g.2);
    ev::observe("yuv_samples_range_checked", g.3);
    ev::observe("hostile_pixels_fed", g.0.pixels);
    let mut fc = J::obj();
    for (i, n) in gen::FCLASS_NAMES.iter().enumerate() {
        fc.put(n, g.0.fclasses[i]);
    }
    ev::observe("float_components_by_class", fc);
    ev::sample(J::obj().set("config", format!("{:?}", cfgs[(ctx.seed as usize * 7919) % cfgs.len()])).set("image", "8 x h hostile pixels, all conversions"));
    ev::add_evals(g.2);
    ev::add_nontrivial(g.1);
    ev::exhaustive(false);
    ev::rule(
        "14 curves x 11 primaries x 7 matrices x 2 ranges x n=8..16 = 19,404 supported configs, subsampling layout rotating over (0,0),(1,0),(1,1),(0,1),(2,0),(2,2) (8 x h images, always divisible); \
         per config a hostile image (special values incl. NaN payloads, +-inf, +-3e38, subnormals, tiny negatives; random bit patterns; unit floats) through every From/TryFrom, every produced Yuv range-checked and re-wrapped with Yuv::new, \
         then decoded again; and a unit-cube image (bit-pattern-uniform, exact 0/1, subnormals) whose outputs must be finite. distinct/non-trivial = configs run (each a distinct configuration with fresh pixels)",
    );
}

pub fn replay(mon: &str, case: &J) -> bool {
    let kind = case.get("kind").and_then(J::as_str).unwrap_or("");
    let sel = ChildSel { child: false, shard: 0, nshards: 1, from: 0 };
    // the context of the original run matters only through the seed, which the driver passes again
    let mut args: std::collections::HashMap<String, String> = Default::default();
    if case.get("lite").and_then(J::as_bool) == Some(true) {
        args.insert("lite".into(), "1".into());
    }
    let tier = if case.get("tier").and_then(J::as_str) == Some("thorough") { Tier::Thorough } else { Tier::Quick };
    let ctx = Ctx { monitor: mon.to_string(), tier, seed: case.get("seed").and_then(J::as_u64).unwrap_or(0), build: String::new(), out: None, args };
    let mut st = Stats::default();
    let idx = case.get("index").and_then(J::as_u64);
    match kind {
        "tamper" | "walk" | "floats" => {
            let Some(idx) = idx else { return false };
            let c2 = case.clone();
            run_case("C07", kind, &|| format!("{kind} #{idx}"), &|| c2.clone(), &mut st, |st| match kind {
                "tamper" => {
                    let single = (TAMPER_GEOS.len() * 2 * 3 * TAMPER_OPS) as u64;
                    let u8s = if idx < single { (idx as usize / (TAMPER_OPS * 3)) % 2 == 0 } else { idx % 2 == 0 };
                    if u8s {
                        tamper_case::<u8>(&ctx, idx, &sel, st)
                    } else {
                        tamper_case::<u16>(&ctx, idx, &sel, st)
                    }
                }
                "walk" => walk_case(&ctx, idx, &sel, case.get("maxdim").and_then(J::as_u64).unwrap_or(12), st),
                _ => float_case(&ctx, idx, &sel, case.get("npx").and_then(J::as_u64).unwrap_or(64) as usize, st),
            });
            ev::add_evals(1);
            ev::observe("replay", J::obj().set("hook_violations", st.hook_violations).set("safe_panics", st.safe_panics).set("conversions", st.conversions));
            true
        }
        "c13" => {
            let Some(ci) = case.get("config_index").and_then(J::as_u64) else { return false };
            let cfgs = c13_configs();
            let Some(cfgt) = cfgs.get((ci % cfgs.len() as u64) as usize).copied() else { return false };
            let before = vh::thread_violations();
            let r = ev::guarded(|| c13_case(&ctx, ci, cfgt, &mut st));
            ev::add_evals(1);
            if let Err(msg) = r {
                ev::violation(format!("C13|panic|{}", ev::panic_site(&msg)), msg, case.clone());
            }
            if vh::thread_violations() > before {
                ev::violation("C13|hook|replay", "unsafe precondition false", case.clone());
            }
            true
        }
        "frame" => {
            let Some(s) = FrameSpec::from_json(case) else { return false };
            let mut rng = Rng::new(1, 1);
            run_case("C07", "frames", &|| s.desc(), &|| s.json(), &mut st, |st| {
                if s.u8s {
                    frame_case::<u8>(&s, &mut rng, &sel, 0, true, st)
                } else {
                    frame_case::<u16>(&s, &mut rng, &sel, 0, true, st)
                }
            });
            ev::add_evals(1);
            ev::observe("replay", J::obj().set("accepted", st.accepted).set("hook_violations", st.hook_violations).set("safe_panics", st.safe_panics));
            true
        }
        _ => false,
    }
}
