use crate::{json::J, Ctx};
pub fn c17(_ctx: &Ctx) {}
pub fn replay(_c: &J) -> bool { false }
