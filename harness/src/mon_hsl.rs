//! C17: HSL follows the hexcone model, stays in range and round-trips.
use crate::ev::{self, Distinct, Worst};
use crate::gen::{hash_px, Rng};
use crate::json::J;
use crate::oracle::lrgb_to_hsl;
use crate::util::*;
use crate::Ctx;
use std::sync::atomic::{AtomicU64, Ordering::Relaxed};
use std::sync::Mutex;
use yuvxyb::*;

const STRATA: [&str; 8] = ["uniform-cube", "forced-sextant", "grey-and-near-grey", "channel-pinned-0-or-1", "two-channels-tiny", "black-white-corners", "sextant-boundary+-ulps", "bit-pattern-uniform"];

/// input class of a pixel, used in violation signatures so that a known finding names *which* pixels fail
pub fn pixel_class(p: [f32; 3]) -> String {
    let mx = p[0].max(p[1]).max(p[2]);
    let mn = p[0].min(p[1]).min(p[2]);
    let l = (mx + mn) / 2.0;
    let hue = if mx == mn {
        "grey".to_string()
    } else if mx == p[0] {
        format!("max=R,{}", if p[2] > p[1] { "b>g" } else { "g>=b" })
    } else if mx == p[1] {
        format!("max=G,{}", if p[0] > p[2] { "r>b" } else { "b>=r" })
    } else {
        format!("max=B,{}", if p[1] > p[0] { "g>r" } else { "r>=g" })
    };
    let lc = if l < 0.01 { "L<0.01" } else if l > 0.99 { "L>0.99" } else { "mid-L" };
    let sat = if mx == 1.0 { ",has-1.0" } else { "" };
    format!("{hue},{lc}{sat}")
}

fn nudge(v: f32, k: i64) -> f32 {
    let b = v.to_bits() as i64 + k;
    if b < 0 {
        return 0.0;
    }
    f32::from_bits(b as u32).clamp(0.0, 1.0)
}

fn gen(rng: &mut Rng, kind: u64) -> [f32; 3] {
    let u = |rng: &mut Rng| rng.unit() as f32;
    match kind {
        0 => {
            if rng.below(4) == 0 {
                crate::gen::related_px(rng, 1.0)
            } else {
                [u(rng), u(rng), u(rng)]
            }
        }
        1 => {
            // force a channel order: pick three values, sort, assign by a permutation
            let mut v = [u(rng), u(rng), u(rng)];
            v.sort_by(|a, b| a.partial_cmp(b).unwrap());
            let perms = [[0usize, 1, 2], [0, 2, 1], [1, 0, 2], [1, 2, 0], [2, 0, 1], [2, 1, 0]];
            let p = rng.pick(&perms);
            [v[p[0]], v[p[1]], v[p[2]]]
        }
        2 => {
            let g = rng.unit();
            let s = 10f64.powf(-3.0 - 6.0 * rng.unit());
            [g as f32, (g + (rng.unit() - 0.5) * s).clamp(0.0, 1.0) as f32, (g + (rng.unit() - 0.5) * s).clamp(0.0, 1.0) as f32]
        }
        3 => {
            // (-0.0 is a value of [0,1] too: it compares equal to 0)
            let mut p = [u(rng), u(rng), u(rng)];
            p[rng.below(3) as usize] = rng.pick(&[0.0f32, 1.0, -0.0, 0.0, 1.0]);
            if rng.below(4) == 0 {
                p[rng.below(3) as usize] = rng.pick(&[0.0f32, 1.0, -0.0]);
            }
            p
        }
        4 => {
            let s1 = 10f64.powf(-30.0 * rng.unit());
            let s2 = 10f64.powf(-30.0 * rng.unit());
            let big = if rng.coin() { rng.unit() } else { 10f64.powf(-6.0 * rng.unit()) };
            let mut p = [big as f32, (rng.unit() * s1) as f32, (rng.unit() * s2) as f32];
            let k = rng.below(3) as usize;
            p.swap(0, k);
            p
        }
        5 => {
            let c = rng.below(8);
            let z = if rng.below(4) == 0 { -0.0f32 } else { 0.0 };
            [if c & 1 == 1 { 1.0 } else { z }, if (c >> 1) & 1 == 1 { 1.0 } else { 0.0 }, if (c >> 2) & 1 == 1 { 1.0 } else { z }]
        }
        6 => {
            // two channels equal (a sextant boundary), then one of them moved by a few ulps
            let hi = u(rng).max(1e-3);
            let lo = hi * u(rng);
            let which_equal_max = rng.coin();
            let mut p = if which_equal_max { [hi, hi, lo] } else { [hi, lo, lo] };
            // permute
            let perms = [[0usize, 1, 2], [0, 2, 1], [1, 0, 2], [1, 2, 0], [2, 0, 1], [2, 1, 0]];
            let pm = rng.pick(&perms);
            p = [p[pm[0]], p[pm[1]], p[pm[2]]];
            let c = rng.below(3) as usize;
            p[c] = nudge(p[c], rng.below(17) as i64 - 8);
            p
        }
        _ => [rng.unit_bits(), rng.unit_bits(), rng.unit_bits()],
    }
}

struct Acc {
    h: Worst<[f32; 3]>,
    s: Worst<[f32; 3]>,
    l: Worst<[f32; 3]>,
    rt: Worst<[f32; 3]>,
    range_bad: [u64; 4], // H<0|NaN, H>=360, S out, L out
    first_range_bad: Option<([f32; 3], [f32; 3])>,
    sext: [u64; 7],
}

fn check(px: &[[f32; 3]], acc: &mut Acc) -> Result<(), String> {
    let n = px.len();
    check_shaped(px, if n % 3 == 0 { (n / 3, 3) } else { (n, 1) }, acc)
}

fn check_shaped(px: &[[f32; 3]], (w, hgt): (usize, usize), acc: &mut Acc) -> Result<(), String> {
    let n = px.len();
    let hsl = Hsl::from(LinearRgb::new(px.to_vec(), w, hgt).map_err(|e| format!("{e:?}"))?);
    if hsl.width() != w || hsl.height() != hgt || hsl.data().len() != n {
        return Err(format!("dims changed: {}x{}", hsl.width(), hsl.height()));
    }
    let back = LinearRgb::from(hsl.clone());
    if back.width() != w || back.height() != hgt || back.data().len() != n {
        return Err(format!("dims changed on the way back: {}x{}", back.width(), back.height()));
    }
    for i in 0..n {
        let p = px[i];
        if !p.iter().all(|v| (0.0..=1.0).contains(v)) {
            continue; // a hostile companion, not a subject
        }
        let g = hsl.data()[i];
        let want = lrgb_to_hsl(px64(p));
        let mut bad = false;
        if !(g[0] >= 0.0) {
            acc.range_bad[0] += 1;
            bad = true;
        }
        if !(g[0] < 360.0) && g[0] >= 0.0 {
            acc.range_bad[1] += 1;
            bad = true;
        }
        if !(g[1] >= 0.0 && g[1] <= 1.0) {
            acc.range_bad[2] += 1;
            bad = true;
        }
        if !(g[2] >= 0.0 && g[2] <= 1.0) {
            acc.range_bad[3] += 1;
            bad = true;
        }
        if bad && acc.first_range_bad.is_none() {
            acc.first_range_bad = Some((p, g));
        }
        acc.l.upd((g[2] as f64 - want[2]).abs(), p);
        if (0.01..=0.99).contains(&want[2]) {
            acc.s.upd((g[1] as f64 - want[1]).abs(), p);
        }
        let mx = p[0].max(p[1]).max(p[2]);
        let mn = p[0].min(p[1]).min(p[2]);
        let c = (mx as f64) - (mn as f64);
        if c >= 0.01 {
            let d = (g[0] as f64 - want[0]).abs();
            let d = if d.is_nan() { f64::NAN } else { d.min(360.0 - d) };
            acc.h.upd(d, p);
        }
        if c == 0.0 {
            acc.sext[6] += 1;
        } else {
            acc.sext[((want[0] / 60.0) as usize).min(5)] += 1;
        }
        let b = back.data()[i];
        for cc in 0..3 {
            acc.rt.upd((b[cc] as f64 - p[cc] as f64).abs(), p);
        }
    }
    Ok(())
}

pub fn c17(ctx: &Ctx) {
    let total: u64 = ctx.arg_u64("pixels").unwrap_or(if ctx.flag("lite") { 1 << 22 } else { ctx.pick(1 << 28, 1 << 32) });
    let chunk: u64 = 65_521;
    let distinct = Distinct::new(ctx.pick(29, 33));
    let glob = Mutex::new(Acc { h: Worst::new(), s: Worst::new(), l: Worst::new(), rt: Worst::new(), range_bad: [0; 4], first_range_bad: None, sext: [0; 7] });
    let strata: Vec<AtomicU64> = (0..8).map(|_| AtomicU64::new(0)).collect();
    ev::par_ranges("C17", total, chunk, |_w, a, b| {
        let mut rng = Rng::new(ctx.seed, 0x0C17_0000 + a / chunk);
        let px: Vec<[f32; 3]> = (a..b)
            .map(|i| {
                let k = i % 8;
                gen(&mut rng, k)
            })
            .collect();
        for (j, p) in px.iter().enumerate() {
            distinct.insert(hash_px(*p));
            let _ = j;
        }
        for k in 0..8u64 {
            let cnt = (a..b).filter(|i| i % 8 == k).count() as u64;
            strata[k as usize].fetch_add(cnt, Relaxed);
        }
        let mut acc = Acc { h: Worst::new(), s: Worst::new(), l: Worst::new(), rt: Worst::new(), range_bad: [0; 4], first_range_bad: None, sext: [0; 7] };
        if let Err(e) = check(&px, &mut acc) {
            ev::violation("C17|dims", e, J::Null);
            return;
        }
        // the same pixels in other contexts, judged by the same per-pixel rules: reversed with every pixel doubled
        // (a pixel equal to its predecessor), and as tiny images of 1..7 pixels
        let ck = a / chunk;
        if ck % 3 == 1 {
            let m = px.len().min(8192);
            let mut v = Vec::with_capacity(2 * m);
            for i in (0..m).rev() {
                v.push(px[i]);
                v.push(px[i]);
            }
            let _ = check(&v, &mut acc);
            // long runs of pixels of one stratum (the strata rotate with the pixel index modulo 8)
            {
                let m = px.len().min(16384);
                let v: Vec<[f32; 3]> = (0..8).flat_map(|k| (k..m).step_by(8)).map(|i| px[i]).collect();
                let _ = check(&v, &mut acc);
            }
            // letterboxed: whole rows of black above and between the rows of subjects, none below
            let wrow = [61usize, 64, 17][(ck / 3 % 3) as usize];
            let (v, _idx, h) = letterbox(&px[..px.len().min(6000)], wrow, [0.0; 3]);
            let _ = check_shaped(&v, (wrow, h), &mut acc);
        } else if ck % 3 == 2 {
            let (mut i, mut len) = (0usize, 1usize);
            while i + len <= px.len().min(2048) {
                let _ = check(&px[i..i + len], &mut acc);
                i += len;
                len = len % 7 + 1;
            }
        } else {
            // hostile companions (NaN, infinities, out-of-range) between the subjects
            let hostile = [[f32::NAN; 3], [f32::INFINITY, 0.5, 0.5], [0.5, f32::NEG_INFINITY, 2.0], [-1.0, 0.5, 0.5], [f32::NAN, 0.0, 1.0], [1e30, 0.0, 0.0]];
            let m = px.len().min(6000);
            let mut v = Vec::with_capacity(m + m / 3 + 1);
            for i in 0..m {
                v.push(px[i]);
                if i % 3 == 1 {
                    v.push(hostile[(i / 3) % hostile.len()]);
                }
            }
            let _ = check(&v, &mut acc);
        }
        let mut g = glob.lock().unwrap();
        g.h.merge(&acc.h);
        g.s.merge(&acc.s);
        g.l.merge(&acc.l);
        g.rt.merge(&acc.rt);
        for i in 0..4 {
            g.range_bad[i] += acc.range_bad[i];
        }
        for i in 0..7 {
            g.sext[i] += acc.sext[i];
        }
        if g.first_range_bad.is_none() {
            g.first_range_bad = acc.first_range_bad;
        }
    });
    let g = glob.lock().unwrap();
    let hslof = |p: [f32; 3]| Hsl::from(LinearRgb::new(vec![p], 1, 1).unwrap()).data()[0];
    for (name, w, tol, unit) in [("hue", &g.h, 0.01, "deg"), ("saturation", &g.s, 1e-4, ""), ("lightness", &g.l, 1e-6, ""), ("roundtrip", &g.rt, 1e-5, "")] {
        ev::observe(&format!("worst_{name}_err"), w.err);
        if let Some(p) = w.at {
            let j = J::obj().set("kind", "hsl").set("check", name).set("pixel", px_json(p)).set("hsl", hslof(p)).set("model", lrgb_to_hsl(px64(p))).set("err", w.err);
            ev::observe(&format!("worst_{name}_at"), j.clone());
            if name == "hue" {
                ev::sample(j.clone());
            }
            if !(w.err <= tol) {
                ev::violation(format!("C17|{name}|{}", pixel_class(p)), format!("pixel {p:?}: {name} error {:.3e}{unit} > {tol:e}; HSL {:?}, model {:?}", w.err, hslof(p), lrgb_to_hsl(px64(p))), j);
            }
        }
    }
    let names = ["hue<0-or-NaN", "hue>=360", "saturation-out-of-[0,1]", "lightness-out-of-[0,1]"];
    let mut rb = J::obj();
    for i in 0..4 {
        rb.put(names[i], g.range_bad[i]);
    }
    ev::observe("range_violations_by_kind", rb);
    if let Some((p, h)) = g.first_range_bad {
        let which: Vec<&str> = (0..4).filter(|i| g.range_bad[*i] > 0).map(|i| names[i]).collect();
        ev::violation(
            format!("C17|range|{}|{}", which.join("+"), pixel_class(p)),
            format!("{} pixels leave the documented HSL ranges; first: {p:?} -> {h:?}", g.range_bad.iter().sum::<u64>()),
            J::obj().set("kind", "hsl").set("check", "range").set("pixel", px_json(p)).set("hsl", h),
        );
    }
    ev::observe("pixels_per_hue_sextant_0..5_and_achromatic", g.sext.to_vec());
    let mut sj = J::obj();
    for (i, s) in STRATA.iter().enumerate() {
        sj.put(s, strata[i].load(Relaxed));
    }
    ev::observe("pixels_per_stratum", sj);

    // every combination of the special component values (exact 0 / 1, their float neighbours, tiny values, mid values)
    {
        let sv: [f32; 14] = [0.0, 1.0, 0.99999994, 0.9999999, f32::from_bits(1), f32::MIN_POSITIVE, 1e-30, 5.9604645e-8, 1.4901161e-8, 0.5, 0.50000006, 0.49999997, 254.0 / 255.0, 1.0 / 255.0];
        let mut lattice = Vec::with_capacity(sv.len().pow(3));
        for a in sv {
            for b in sv {
                for c in sv {
                    lattice.push([a, b, c]);
                }
            }
        }
        let mut acc = Acc { h: Worst::new(), s: Worst::new(), l: Worst::new(), rt: Worst::new(), range_bad: [0; 4], first_range_bad: None, sext: [0; 7] };
        if let Err(e) = check(&lattice, &mut acc) {
            ev::violation("C17|dims", e, J::Null);
        }
        let hslof = |p: [f32; 3]| Hsl::from(LinearRgb::new(vec![p], 1, 1).unwrap()).data()[0];
        for (name, w, tol) in [("hue", &acc.h, 0.01), ("saturation", &acc.s, 1e-4), ("lightness", &acc.l, 1e-6), ("roundtrip", &acc.rt, 1e-5)] {
            if let Some(p) = w.at {
                if !(w.err <= tol) {
                    ev::violation(
                        format!("C17|{name}|special-values"),
                        format!("special-value pixel {p:?}: {name} error {:.3e} > {tol:e}; HSL {:?}", w.err, hslof(p)),
                        J::obj().set("kind", "hsl").set("check", name).set("pixel", px_json(p)).set("hsl", hslof(p)),
                    );
                }
            }
        }
        if let Some((p, h)) = acc.first_range_bad {
            ev::violation("C17|range|special-values", format!("special-value pixel {p:?} -> {h:?} leaves the documented ranges"), J::obj().set("kind", "hsl").set("check", "range").set("pixel", px_json(p)).set("hsl", h));
        }
        ev::observe("special_value_lattice_pixels", lattice.len());
        ev::add_evals(lattice.len() as u64);
    }

    // HSL -> RGB anchors: L=0 is black, L=1 is white for every hue/saturation
    let mut rng = Rng::new(ctx.seed, 0x0C17_FFFF);
    let mut hsl_in: Vec<[f32; 3]> = Vec::new();
    let hues = [0.0f32, 60.0, 120.0, 180.0, 240.0, 300.0, 359.99997, 59.999996, 60.000004, 1e-30, 179.99998, 300.00003];
    for h in hues {
        for s in [0.0f32, 1.0, 0.5, 1e-7, 0.99999994] {
            for l in [0.0f32, 1.0] {
                hsl_in.push([h, s, l]);
            }
        }
    }
    let nrand: usize = ctx.pick(1 << 18, 1 << 22);
    for _ in 0..nrand {
        hsl_in.push([f32::from_bits(rng.below(0x43B4_0000) as u32), rng.unit() as f32, if rng.coin() { 0.0 } else { 1.0 }]);
        hsl_in.push([(rng.unit() * 360.0) as f32 * 0.99999, rng.unit() as f32, if rng.coin() { 0.0 } else { 1.0 }]);
    }
    hsl_in.retain(|p| p[0] >= 0.0 && p[0] < 360.0);
    // every anchor is preceded by a fully saturated mid-lightness pixel (not judged): nothing of it may stick to the anchor
    {
        let mut v = Vec::with_capacity(hsl_in.len() * 2);
        for (i, p) in hsl_in.iter().enumerate() {
            if i % 2 == 0 {
                v.push([(i % 360) as f32, 1.0, 0.5]);
            }
            v.push(*p);
        }
        hsl_in = v;
    }
    let n = hsl_in.len();
    let out = LinearRgb::from(Hsl::new(hsl_in.clone(), n, 1).unwrap());
    let mut wa = Worst::<[f32; 3]>::new();
    for i in 0..n {
        if hsl_in[i][2] != 0.0 && hsl_in[i][2] != 1.0 {
            continue; // a coloured companion
        }
        let want = hsl_in[i][2] as f64;
        for c in 0..3 {
            wa.upd((out.data()[i][c] as f64 - want).abs(), hsl_in[i]);
        }
    }
    ev::observe("hsl_anchor_triples", n);
    ev::observe("hsl_anchor_worst_err", wa.err);
    if !(wa.err <= 1e-6) {
        if let Some(p) = wa.at {
            ev::violation("C17|anchor", format!("HSL {p:?} decodes {:.3e} away from {}", wa.err, if p[2] == 0.0 { "black" } else { "white" }), J::obj().set("kind", "hsl-anchor").set("hsl", px_json(p)));
        }
    }
    ev::add_evals(total + n as u64);
    ev::add_nontrivial(distinct.count());
    ev::exhaustive(false);
    ev::rule(
        "linear pixels of [0,1]^3 from 8 strata (uniform; forced channel order = each hue sextant; greys/near-greys with spread 1e-9..1e-3; a channel pinned to 0/1; two channels tiny 1e-30..1; cube corners; \
         sextant boundaries (two channels equal) with one channel moved by -8..8 ulp; uniform over bit patterns), images of 65,521 pixels; Hsl::from vs f64 hexcone model with mod-6 hue, strict range test, \
         and LinearRgb::from(Hsl::from(p)) vs p; plus HSL triples with L in {0,1} for boundary and random hues. distinct = hash bitset over pixel bits; non-trivial = every pixel (range is checked for all)",
    );
}

pub fn replay(case: &J) -> bool {
    let kind = case.get("kind").and_then(J::as_str).unwrap_or("");
    if kind == "hsl" {
        let Some(p) = case.get("pixel").and_then(parse_bits3) else { return false };
        let mut acc = Acc { h: Worst::new(), s: Worst::new(), l: Worst::new(), rt: Worst::new(), range_bad: [0; 4], first_range_bad: None, sext: [0; 7] };
        if check(&[p], &mut acc).is_err() {
            return false;
        }
        ev::add_evals(1);
        let hsl = Hsl::from(LinearRgb::new(vec![p], 1, 1).unwrap()).data()[0];
        ev::observe("replay", J::obj().set("hsl", hsl).set("model", lrgb_to_hsl(px64(p))).set("hue_err", acc.h.err).set("sat_err", acc.s.err).set("light_err", acc.l.err).set("roundtrip_err", acc.rt.err).set("range_bad", acc.range_bad.to_vec()));
        let bad = acc.range_bad.iter().sum::<u64>() > 0 || !(acc.l.err <= 1e-6) || (acc.s.at.is_some() && !(acc.s.err <= 1e-4)) || (acc.h.at.is_some() && !(acc.h.err <= 0.01)) || !(acc.rt.err <= 1e-5);
        if bad {
            ev::violation("C17|replay", format!("HSL {hsl:?}"), case.clone());
        }
        return true;
    }
    if kind == "hsl-anchor" {
        let Some(p) = case.get("hsl").and_then(parse_bits3) else { return false };
        let out = LinearRgb::from(Hsl::new(vec![p], 1, 1).unwrap()).data()[0];
        ev::add_evals(1);
        ev::observe("replay", J::obj().set("rgb", out));
        if !(0..3).all(|c| (out[c] as f64 - p[2] as f64).abs() <= 1e-6) {
            ev::violation("C17|replay", format!("{out:?}"), case.clone());
        }
        return true;
    }
    false
}
