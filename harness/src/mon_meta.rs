//! C14 (support / error contract over every metadata triple) and C15 (Unspecified metadata resolution).
use crate::ev;
use crate::gen::{hash_mix, hash_px, Rng};
use crate::json::J;
use crate::oracle::{MATRICES, PRIMARIES, TRANSFERS};
use crate::util::*;
use crate::{Ctx, Tier};
use std::collections::BTreeMap;
use yuvxyb::*;

// ---------------------------------------------------------------- independent support tables
fn std_matrix(m: MC) -> bool {
    MATRICES.contains(&m)
}
fn derived_matrix(m: MC) -> bool {
    matches!(m, MC::Identity | MC::BT2020ConstantLuminance | MC::ChromaticityDerivedConstantLuminance | MC::ST2085 | MC::ICtCp)
}
fn has_chromaticities(p: CP) -> bool {
    matches!(p, CP::BT709 | CP::BT470M | CP::BT470BG | CP::ST170M | CP::ST240M | CP::Film | CP::BT2020 | CP::P3DCI | CP::P3Display | CP::Tech3213)
}
fn matrix_ok(m: MC, p: CP) -> bool {
    std_matrix(m) || (derived_matrix(m) && has_chromaticities(p))
}
fn transfer_ok(t: TC) -> bool {
    TRANSFERS.contains(&t)
}
fn primaries_ok(p: CP) -> bool {
    PRIMARIES.contains(&p)
}

type R = Result<u64, ConversionError>; // Ok(hash of output bits)

fn allowed_errors(uses_m: bool, uses_t: bool, uses_p: bool, m: MC, t: TC, p: CP) -> Vec<ConversionError> {
    let mut v = Vec::new();
    if uses_m && !matrix_ok(m, p) {
        v.push(ConversionError::UnsupportedMatrixCoefficients);
        if derived_matrix(m) {
            // the matrix is derived from the primaries, which are the field at fault
            v.push(ConversionError::UnsupportedColorPrimaries);
        }
    }
    if uses_t && !transfer_ok(t) {
        v.push(ConversionError::UnsupportedTransferCharacteristic);
    }
    if uses_p && !primaries_ok(p) {
        v.push(ConversionError::UnsupportedColorPrimaries);
    }
    v
}

fn hash_data(d: &[[f32; 3]]) -> u64 {
    d.iter().fold(0x1234, |h, p| hash_mix(h, hash_px(*p)))
}
fn hash_yuv<T: Pixel>(y: &Yuv<T>) -> u64 {
    let mut h = 0x77u64;
    for pl in 0..3 {
        let p = &y.data()[pl];
        for yy in 0..p.cfg.height {
            for xx in 0..p.cfg.width {
                h = hash_mix(h, u32::cast_from(p.p(xx, yy)) as u64);
            }
        }
    }
    h
}

struct TripleResult {
    r: [R; 10],
    /// the same encode with the source Rgb carrying *other* labels (Linear/BT709, and sRGB/BT2020): the encoder uses
    /// only the matrix of the target config, so the result must not depend on the source's own transfer/primaries tags
    enc_other_tags: [R; 2],
}
const CONV_NAMES: [&str; 10] = [
    "Rgb::try_from(&Yuv)",
    "Yuv::try_from((&Rgb,cfg))",
    "LinearRgb::try_from(Rgb)",
    "Rgb::try_from((LinearRgb,t,p))",
    "Xyb::try_from(&Yuv)",
    "Yuv::try_from((Xyb,cfg))",
    "LinearRgb::try_from(&Yuv)",
    "Yuv::try_from((LinearRgb,cfg))",
    "Xyb::try_from(Rgb)",
    "Rgb::try_from((Xyb,t,p))",
];
/// (uses matrix, uses transfer, uses primaries) per conversion
const CONV_USES: [(bool, bool, bool); 10] = [(true, false, false), (true, false, false), (false, true, true), (false, true, true), (true, true, true), (true, true, true), (true, true, true), (true, true, true), (false, true, true), (false, true, true)];
/// reverse pairs
const PAIRS: [(usize, usize, &str); 5] = [(0, 1, "Yuv<->Rgb"), (2, 3, "Rgb<->LinearRgb"), (4, 5, "Yuv<->Xyb"), (6, 7, "Yuv<->LinearRgb"), (8, 9, "Rgb<->Xyb")];

fn run_triple<T: Pixel>(m: MC, p: CP, t: TC) -> Result<TripleResult, String> {
    run_triple_ss::<T>(m, p, t, (0, 0), 0)
}

const SHAPES: [&str; 5] = ["3x1 / 4x4", "0x0 (no pixels)", "0x2 (no pixels)", "2x0 (no pixels)", "3x1 with NaN / +inf / -inf samples"];

/// `shape`: see SHAPES
fn run_triple_ss<T: Pixel>(m: MC, p: CP, t: TC, ss: (u8, u8), shape: u8) -> Result<TripleResult, String> {
    ev::guarded(|| {
        let depth = if std::mem::size_of::<T>() == 1 { 8 } else { 10 };
        let cfg = cfg_full(m, t, p, false, depth, ss);
        let k = 1u32 << (depth - 8);
        let (w, h) = match shape {
            1 => (0usize, 0usize),
            2 => (0, 2),
            3 => (2, 0),
            _ if ss == (0, 0) => (3, 1),
            _ => (4, 4),
        };
        let codes = [[100 * k, 120 * k, 140 * k], [16 * k, 128 * k, 128 * k], [200 * k, 90 * k, 170 * k]];
        let yuv: Yuv<T> = if ss == (0, 0) && !(1..=3).contains(&shape) {
            mk_yuv(&codes, cfg)
        } else {
            let f: Frame<T> = mk_frame(w, h, ss, 0, |pl, x, y| codes[(x + y) % 3][pl]);
            Yuv::new(f, cfg).expect("well-formed frame")
        };
        let base = if shape == 4 { [[0.2f32, f32::NAN, 0.6], [f32::INFINITY, 0.0, f32::NEG_INFINITY], [0.9, 0.5, f32::NAN]] } else { [[0.2f32, 0.4, 0.6], [0.0, 0.0, 0.0], [0.9, 0.5, 0.1]] };
        let px: Vec<[f32; 3]> = (0..w * h).map(|i| base[i % 3]).collect();
        let rgb = Rgb::new(px.clone(), w, h, t, p).unwrap();
        let lin = LinearRgb::new(px.clone(), w, h).unwrap();
        let xyb = Xyb::from(LinearRgb::new(px.clone(), w, h).unwrap());
        TripleResult {
            r: [
                Rgb::try_from(&yuv).map(|o| hash_data(o.data())),
                Yuv::<T>::try_from((&rgb, cfg)).map(|o| hash_yuv(&o)),
                LinearRgb::try_from(rgb.clone()).map(|o| hash_data(o.data())),
                Rgb::try_from((lin.clone(), t, p)).map(|o| hash_data(o.data())),
                Xyb::try_from(&yuv).map(|o| hash_data(o.data())),
                Yuv::<T>::try_from((xyb.clone(), cfg)).map(|o| hash_yuv(&o)),
                LinearRgb::try_from(&yuv).map(|o| hash_data(o.data())),
                Yuv::<T>::try_from((lin.clone(), cfg)).map(|o| hash_yuv(&o)),
                Xyb::try_from(rgb.clone()).map(|o| hash_data(o.data())),
                Rgb::try_from((xyb.clone(), t, p)).map(|o| hash_data(o.data())),
            ],
            enc_other_tags: [
                Yuv::<T>::try_from((&Rgb::new(px.clone(), w, h, TC::Linear, CP::BT709).unwrap(), cfg)).map(|o| hash_yuv(&o)),
                Yuv::<T>::try_from((Rgb::new(px.clone(), w, h, TC::SRGB, CP::BT2020).unwrap(), cfg)).map(|o| hash_yuv(&o)),
            ],
        }
    })
}

fn tj(m: MC, p: CP, t: TC, u8s: bool) -> J {
    J::obj().set("kind", "c14").set("matrix", format!("{m:?}")).set("primaries", format!("{p:?}")).set("transfer", format!("{t:?}")).set("u8", u8s)
}

fn judge_triple(m: MC, p: CP, t: TC, u8s: bool, res: &TripleResult, base: &mut BTreeMap<(String, usize, bool), u64>, table: &mut BTreeMap<String, u64>, info_double: &mut u64) {
    let case = || tj(m, p, t, u8s);
    for (i, r) in res.r.iter().enumerate() {
        let (um, ut, up) = CONV_USES[i];
        let expect_ok = (!um || matrix_ok(m, p)) && (!ut || transfer_ok(t)) && (!up || primaries_ok(p));
        let name = CONV_NAMES[i];
        *table.entry(format!("{name} -> {}", match r { Ok(_) => "Ok".to_string(), Err(e) => format!("{e:?}") })).or_insert(0) += 1;
        match r {
            Ok(_) if !expect_ok => ev::violation(
                format!("C14|succeeds-with-unsupported|{name}"),
                format!("{name} succeeded for ({m:?}, {p:?}, {t:?}) although a field it uses is unsupported"),
                case().set("conversion", name),
            ),
            Err(e) if expect_ok => ev::violation(
                format!("C14|fails-with-supported|{name}|{e:?}"),
                format!("{name} failed with {e:?} for ({m:?}, {p:?}, {t:?}) although every field it uses is supported"),
                case().set("conversion", name),
            ),
            Err(e) => {
                let allowed = allowed_errors(um, ut, up, m, t, p);
                if !allowed.contains(e) {
                    ev::violation(
                        format!("C14|error-names-innocent-field|{name}|{e:?}"),
                        format!("{name} reported {e:?} for ({m:?}, {p:?}, {t:?}); the offending fields allow only {allowed:?}"),
                        case().set("conversion", name),
                    );
                }
            }
            Ok(_) => {}
        }
    }
    for (a, b, pname) in PAIRS {
        let (ra, rb) = (&res.r[a], &res.r[b]);
        if ra.is_ok() != rb.is_ok() {
            ev::violation(
                format!("C14|asymmetric-support|{pname}"),
                format!("{} gives {:?} but its reverse {} gives {:?} for ({m:?}, {p:?}, {t:?})", CONV_NAMES[a], ra.as_ref().map(|_| ()), CONV_NAMES[b], rb.as_ref().map(|_| ())),
                case().set("pair", pname),
            );
        } else if let (Err(ea), Err(eb)) = (ra, rb) {
            if ea != eb {
                match pname {
                    "Yuv<->Rgb" => ev::violation(format!("C14|different-errors|{pname}"), format!("{ea:?} vs {eb:?} for ({m:?}, {p:?}, {t:?})"), case().set("pair", pname)),
                    "Rgb<->LinearRgb" => {
                        // two fallible stages run in opposite order: equal errors are required only when a single stage is at fault
                        if transfer_ok(t) != primaries_ok(p) {
                            ev::violation(format!("C14|different-errors|{pname}"), format!("{ea:?} vs {eb:?} for ({p:?}, {t:?}) although only one stage is at fault"), case().set("pair", pname));
                        } else {
                            *info_double += 1;
                        }
                    }
                    _ => {}
                }
            }
        }
    }
    for (k, other) in res.enc_other_tags.iter().enumerate() {
        if *other != res.r[1] {
            ev::violation(
                "C14|depends-on-source-tags|Yuv::try_from((&Rgb,cfg))",
                format!("encoding the same pixels with config ({m:?}, {p:?}, {t:?}) gives {:?} when the Rgb is tagged like the config but {:?} when it is tagged {}", res.r[1].as_ref().map(|_| "Ok").map_err(|e| *e), other.as_ref().map(|_| "Ok(different or same bits)").map_err(|e| *e), if k == 0 { "Linear/BT709" } else { "sRGB/BT2020" }),
                case().set("conversion", "Yuv::try_from((&Rgb,cfg))").set("source_tags", if k == 0 { "Linear/BT709" } else { "SRGB/BT2020" }),
            );
        }
    }
    // independence: with a standard matrix, Yuv<->Rgb does not depend on transfer or primaries
    if std_matrix(m) {
        for i in 0..2 {
            if let Ok(h) = res.r[i] {
                let key = (format!("{m:?}"), i, u8s);
                match base.get(&key) {
                    None => {
                        base.insert(key, h);
                    }
                    Some(b) if *b != h => ev::violation(
                        format!("C14|depends-on-unused-metadata|{}", CONV_NAMES[i]),
                        format!("{} with matrix {m:?} gives different bits for ({p:?}, {t:?}) than for other transfer/primaries", CONV_NAMES[i]),
                        case().set("conversion", CONV_NAMES[i]),
                    ),
                    _ => {}
                }
            }
        }
    }
}

pub fn c14(ctx: &Ctx) {
    // all 14 x 13 x 18 fully specified triples
    let mut triples = Vec::new();
    for m in ALL_MC {
        for p in ALL_CP {
            for t in ALL_TC {
                triples.push((m, p, t));
            }
        }
    }
    let mut orders: Vec<(String, Vec<usize>)> = vec![("nested m>p>t".into(), (0..triples.len()).collect()), ("reversed".into(), (0..triples.len()).rev().collect())];
    let mut rng = Rng::new(ctx.seed, 0x0C14);
    let npass = if ctx.tier == Tier::Thorough { 12 } else { 3 };
    for k in 0..npass {
        let mut o: Vec<usize> = (0..triples.len()).collect();
        for i in (1..o.len()).rev() {
            o.swap(i, rng.below(i as u64 + 1) as usize);
        }
        orders.push((format!("seed-shuffled #{k}"), o));
    }
    // orders that keep the matrix fixed while primaries vary fastest, and vice versa (history-sensitive defects)
    let mut o2: Vec<usize> = (0..triples.len()).collect();
    o2.sort_by_key(|i| {
        let (m, p, t) = triples[*i];
        (ALL_TC.iter().position(|x| *x == t), ALL_MC.iter().position(|x| *x == m), ALL_CP.iter().position(|x| *x == p))
    });
    orders.push(("t>m>p".into(), o2));
    let mut table: BTreeMap<String, u64> = BTreeMap::new();
    let mut info_double = 0u64;
    let mut evals = 0u64;
    let mut panics = 0u64;
    let mut refused_requests = 0u64;
    let mut first_pass_results: BTreeMap<(usize, bool), Vec<Option<u64>>> = BTreeMap::new();
    for (oi, (oname, order)) in orders.iter().enumerate() {
        let mut base: BTreeMap<(String, usize, bool), u64> = BTreeMap::new();
        if oi >= 1 {
            // a request that the encoder refuses (odd size into 4:2:0 with a supported matrix: documented assert),
            // alternately on this thread and on another one; what follows must be unaffected
            let refused = move || {
                let mc = [MC::BT709, MC::BT470BG, MC::ChromaticityDerivedNonConstantLuminance, MC::YCgCo][oi % 4];
                let rgb = Rgb::new(vec![[0.3, 0.6, 0.1]; 9], 3, 3, TC::SRGB, CP::BT709).unwrap();
                ev::guarded(|| Yuv::<u8>::try_from((&rgb, cfg_full(mc, TC::SRGB, CP::BT709, false, 8, (1, 1)))).is_ok())
            };
            let r = if oi % 2 == 1 { refused() } else { std::thread::spawn(refused).join().unwrap_or(Err("thread".into())) };
            refused_requests += 1;
            if matches!(r, Ok(true)) {
                ev::note("an odd-sized 4:2:0 request was accepted");
            }
        }
        for &ti in order {
            let (m, p, t) = triples[ti];
            for u8s in [true, false] {
                let res = if u8s { run_triple::<u8>(m, p, t) } else { run_triple::<u16>(m, p, t) };
                evals += 10;
                match res {
                    Err(msg) => {
                        panics += 1;
                        ev::violation(format!("C14|panic|{}", ev::panic_site(&msg)), format!("a conversion panicked for ({m:?}, {p:?}, {t:?}): {msg}"), tj(m, p, t, u8s));
                    }
                    Ok(res) => {
                        let mut tb = BTreeMap::new();
                        judge_triple(m, p, t, u8s, &res, &mut base, if oi == 0 { &mut table } else { &mut tb }, &mut info_double);
                        // results must not depend on the order in which triples were visited
                        let sig: Vec<Option<u64>> = res.r.iter().map(|r| r.as_ref().ok().copied()).collect();
                        match first_pass_results.get(&(ti, u8s)) {
                            None => {
                                first_pass_results.insert((ti, u8s), sig);
                            }
                            Some(prev) if *prev != sig => {
                                let which = (0..10).find(|i| prev[*i] != sig[*i]).unwrap_or(0);
                                ev::violation(
                                    format!("C14|history-dependent|{}", CONV_NAMES[which]),
                                    format!("{} for ({m:?}, {p:?}, {t:?}) gives a different result in visiting order '{oname}' than in the first pass", CONV_NAMES[which]),
                                    tj(m, p, t, u8s).set("conversion", CONV_NAMES[which]).set("order", oname.as_str()),
                                );
                            }
                            _ => {}
                        }
                    }
                }
            }
        }
    }
    // the same contract with subsampled layouts (first visiting order only): support must not depend on the layout
    let mut sub_evals = 0u64;
    for (tidx, &(m, p, t)) in triples.iter().enumerate() {
        for ss in [(1u8, 1u8), (1, 0), (2, 2)] {
            for u8s in [true, false] {
                let res = if u8s { run_triple_ss::<u8>(m, p, t, ss, 0) } else { run_triple_ss::<u16>(m, p, t, ss, 0) };
                sub_evals += 10;
                match res {
                    Err(msg) => ev::violation(
                        format!("C14|panic|subsampled|{}", ev::panic_site(&msg)),
                        format!("a conversion panicked for ({m:?}, {p:?}, {t:?}) with subsampling {ss:?}: {msg}"),
                        tj(m, p, t, u8s).set("ss", [ss.0, ss.1]),
                    ),
                    Ok(r) => {
                        // same success/error pattern as the 4:4:4 run of the first pass
                        if let Some(prev) = first_pass_results.get(&(tidx, u8s)) {
                            for i in 0..10 {
                                if prev[i].is_some() != r.r[i].is_ok() {
                                    ev::violation(
                                        format!("C14|layout-dependent-support|{}", CONV_NAMES[i]),
                                        format!("{} for ({m:?}, {p:?}, {t:?}): ok={} at 4:4:4 but ok={} with subsampling {ss:?}", CONV_NAMES[i], prev[i].is_some(), r.r[i].is_ok()),
                                        tj(m, p, t, u8s).set("ss", [ss.0, ss.1]).set("conversion", CONV_NAMES[i]),
                                    );
                                    break;
                                }
                            }
                        }
                    }
                }
            }
        }
    }
    // ... nor on the image having pixels at all, nor on the samples being finite
    let mut shape_evals = 0u64;
    for (tidx, &(m, p, t)) in triples.iter().enumerate() {
        for (shape, ss) in [(1u8, (0u8, 0u8)), (2, (0, 0)), (3, (1, 1)), (1, (1, 1)), (4, (0, 0))] {
            for u8s in [true, false] {
                let res = if u8s { run_triple_ss::<u8>(m, p, t, ss, shape) } else { run_triple_ss::<u16>(m, p, t, ss, shape) };
                shape_evals += 10;
                let sname = SHAPES[shape as usize];
                match res {
                    Err(msg) => ev::violation(
                        format!("C14|panic|shape{shape}|{}", ev::panic_site(&msg)),
                        format!("a conversion panicked for ({m:?}, {p:?}, {t:?}) on an image of shape {sname}: {msg}"),
                        tj(m, p, t, u8s).set("ss", [ss.0, ss.1]).set("shape", shape),
                    ),
                    Ok(r) => {
                        if let Some(prev) = first_pass_results.get(&(tidx, u8s)) {
                            for i in 0..10 {
                                // what succeeds on an ordinary image must succeed here too ("always succeed"); the other
                                // direction (a request refused for the ordinary image but accepted for an image without
                                // pixels) is left to the symmetry clause below, which is what the property states
                                if prev[i].is_some() && !r.r[i].is_ok() {
                                    ev::violation(
                                        format!("C14|content-dependent-support|{}", CONV_NAMES[i]),
                                        format!("{} for ({m:?}, {p:?}, {t:?}): ok={} on the ordinary image but ok={} on an image of shape {sname}", CONV_NAMES[i], prev[i].is_some(), r.r[i].is_ok()),
                                        tj(m, p, t, u8s).set("ss", [ss.0, ss.1]).set("shape", shape).set("conversion", CONV_NAMES[i]),
                                    );
                                    break;
                                }
                            }
                        }
                        // the reverse pairs still agree on this shape
                        for (a, b, pname) in PAIRS {
                            if r.r[a].is_ok() != r.r[b].is_ok() {
                                ev::violation(
                                    format!("C14|asymmetric-support|{pname}|shape{shape}"),
                                    format!("{} ok={} but its reverse {} ok={} for ({m:?}, {p:?}, {t:?}) on an image of shape {sname}", CONV_NAMES[a], r.r[a].is_ok(), CONV_NAMES[b], r.r[b].is_ok()),
                                    tj(m, p, t, u8s).set("ss", [ss.0, ss.1]).set("shape", shape).set("pair", pname),
                                );
                            }
                        }
                    }
                }
            }
        }
    }
    evals += shape_evals;
    ev::observe("empty_and_nonfinite_image_evaluations", shape_evals);
    evals += sub_evals;
    ev::observe("subsampled_layout_evaluations", sub_evals);
    ev::observe("triples", triples.len());
    ev::observe("visiting_orders", J::Arr(orders.iter().map(|(n, _)| J::from(n.as_str())).collect()));
    ev::observe("panics", panics);
    ev::observe("refused_requests_between_passes", refused_requests);
    ev::observe("result_table_first_pass(conversion -> outcome: count over triples x {u8,u16})", J::Obj(table.iter().map(|(k, v)| (k.clone(), J::from(*v))).collect()));
    ev::observe("INFO_rgb_linear_double_fault_cases_with_different_errors", info_double);
    ev::sample(J::obj().set("triple", "(Identity, Reserved, PerceptualQuantizer)").set("expect", "Yuv<->Rgb Err(UnsupportedColorPrimaries|UnsupportedMatrixCoefficients), Rgb<->LinearRgb Err(UnsupportedColorPrimaries)"));
    ev::sample(J::obj().set("triple", "(BT709, ST428, BT1361E)").set("expect", "Yuv<->Rgb Ok; Rgb<->LinearRgb Err(UnsupportedTransferCharacteristic)"));
    ev::add_evals(evals);
    ev::add_nontrivial(triples.len() as u64 * 2);
    ev::exhaustive(true);
    ev::rule(
        "all 14 x 13 x 18 = 3276 fully specified (matrix, primaries, transfer) triples x {u8/8-bit, u16/10-bit}, 10 conversions each (5 reverse pairs), judged against independent support tables; \
         the whole enumeration repeated in several visiting orders (nested, reversed, transfer-major, seed-shuffled) on one thread, and every result compared with the first pass, so that state carried from one conversion to the next is observable. \
         distinct = triples x storage types (enumerated)",
    );
}

// ================================================================ C15
fn guess_matrix(w: usize, h: usize) -> MC {
    if w >= 1280 || h > 576 {
        MC::BT709
    } else if h == 576 {
        MC::BT470BG
    } else {
        MC::ST170M
    }
}
fn guess_primaries(m: MC, w: usize, h: usize) -> CP {
    if m == MC::BT2020NonConstantLuminance || m == MC::BT2020ConstantLuminance {
        CP::BT2020
    } else if m == MC::BT709 || w >= 1280 || h > 576 {
        CP::BT709
    } else if h == 576 {
        CP::BT470BG
    } else if h == 480 || h == 488 {
        CP::ST170M
    } else {
        CP::BT709
    }
}
/// the documented mpv table (the monitor's own copy)
pub fn resolve(c: YuvConfig, w: usize, h: usize) -> YuvConfig {
    let mut o = c;
    if o.matrix_coefficients == MC::Unspecified {
        o.matrix_coefficients = guess_matrix(w, h);
    }
    if o.color_primaries == CP::Unspecified {
        o.color_primaries = guess_primaries(o.matrix_coefficients, w, h);
    }
    if o.transfer_characteristics == TC::Unspecified {
        o.transfer_characteristics = TC::BT1886;
    }
    o
}

fn c15_sizes() -> Vec<(usize, usize)> {
    let hs: Vec<usize> = [1usize, 2, 3, 4, 16].into_iter().chain(479..=489).chain(575..=577).chain([720, 1080, 1279, 1280, 1281]).collect();
    let ws: Vec<usize> = [1usize, 2, 3, 4, 16].into_iter().chain([479, 480, 481, 488, 575, 576, 577, 720]).chain(1279..=1281).chain([1920]).collect();
    let mut v = Vec::new();
    for &w in &ws {
        for &h in &hs {
            // keep frames small: one side may be large, both only for a few sizes
            if w <= 16 || h <= 16 || (w == 1920 && h == 1080) || (w == 1280 && h == 720) || (w == 720 && (h == 576 || h == 480)) || (w == h) {
                v.push((w, h));
            }
        }
    }
    // sides beyond 16 bits (the heuristic is a function of the full dimensions), and even HD / SD sizes for the subsampled variants
    v.extend([(2, 66112), (66176, 2), (1, 66016), (66815, 1), (2, 65536), (65536, 2), (1280, 576), (1920, 480), (2558, 2), (2560, 576), (640, 360), (1278, 576)]);
    v
}

fn subsets(c: YuvConfig, mask: u8) -> YuvConfig {
    let mut o = c;
    if mask & 1 != 0 {
        o.matrix_coefficients = MC::Unspecified;
    }
    if mask & 2 != 0 {
        o.color_primaries = CP::Unspecified;
    }
    if mask & 4 != 0 {
        o.transfer_characteristics = TC::Unspecified;
    }
    o
}
fn has_unspec(c: &YuvConfig) -> bool {
    c.matrix_coefficients == MC::Unspecified || c.color_primaries == CP::Unspecified || c.transfer_characteristics == TC::Unspecified
}

fn c15_table(ctx: &Ctx) -> (u64, u64) {
    let sizes = c15_sizes();
    let all_m: Vec<MC> = ALL_MC.iter().copied().chain([MC::Unspecified]).collect();
    let evals = std::sync::atomic::AtomicU64::new(0);
    let guessed: std::sync::Mutex<BTreeMap<String, u64>> = std::sync::Mutex::new(BTreeMap::new());
    ev::par_ranges("C15", sizes.len() as u64, 1, |_w, a, _b| {
        let (w, h) = sizes[a as usize];
        let mut n = 0u64;
        let mut lg: BTreeMap<String, u64> = BTreeMap::new();
        // layout variants (subsampling, padding on every side): the resolution is a function of the visible luma size only
        let variants: Vec<((u8, u8), usize)> = [((0u8, 0u8), 0usize), ((0, 0), 8), ((0, 0), 48), ((1, 0), 0), ((1, 1), 0), ((1, 1), 8), ((0, 1), 48)]
            .into_iter()
            .filter(|(ss, pad)| w % (1 << ss.0) == 0 && h % (1 << ss.1) == 0 && (*pad == 0 || (w + 2 * pad) * (h + 2 * pad) < 3_000_000))
            .collect();
        for (vi, &(ss, pad)) in variants.iter().enumerate() {
        let f8: Frame<u8> = mk_frame(w, h, ss, pad, |_, x, y| ((x + y) % 200) as u32);
        let f16: Frame<u16> = if vi == 0 { mk_frame(w, h, ss, pad, |_, x, y| ((x * 3 + y) % 1000) as u32) } else { mk_frame(0, 0, ss, 0, |_, _, _| 0) };
        for (mi, &m) in all_m.iter().enumerate() {
            for mask in 0u8..8 {
                let p0 = PRIMARIES[(mi + mask as usize) % 11];
                let t0 = TRANSFERS[(mi * 3 + mask as usize) % 14];
                for (depth, u8s) in [(8u8, true), (10, false), (16, false)] {
                    // large u16 frames at depth 10 cost a full sample scan: only for small sizes
                    if !u8s && depth == 10 && w * h > 200_000 {
                        continue;
                    }
                    if vi > 0 && !u8s {
                        continue;
                    }
                    let base = cfg_full(m, t0, p0, mask % 2 == 0, depth, ss);
                    let c = subsets(base, mask);
                    let want = resolve(c, w, h);
                    let got = ev::guarded(|| if u8s { Yuv::new(f8.clone(), c).map(|y| (y.config(), y.width(), y.height())) } else { Yuv::new(f16.clone(), c).map(|y| (y.config(), y.width(), y.height())) });
                    n += 1;
                    let case = || J::obj().set("kind", "c15-table").set("w", w).set("h", h).set("cfg", cfg_json(&c)).set("u8", u8s).set("pad", pad);
                    match got {
                        Err(msg) => ev::violation(format!("C15|panic|{}", ev::panic_site(&msg)), msg, case()),
                        Ok(Err(e)) => ev::violation("C15|yuv-new-rejected", format!("Yuv::new rejected a well-formed {w}x{h} frame: {e:?}"), case()),
                        Ok(Ok((cfg, gw, gh))) => {
                            if has_unspec(&cfg) {
                                ev::violation(format!("C15|still-unspecified|Yuv::new|depth={depth}"), format!("Yuv::new({w}x{h}, {c:?}).config() = {cfg:?} still reports Unspecified"), case());
                            } else if cfg != want {
                                let field = if cfg.matrix_coefficients != want.matrix_coefficients { "matrix" } else if cfg.color_primaries != want.color_primaries { "primaries" } else if cfg.transfer_characteristics != want.transfer_characteristics { "transfer" } else { "other" };
                                ev::violation(
                                    format!("C15|resolution-table|{field}"),
                                    format!("Yuv::new({w}x{h}) resolved {c:?} to {cfg:?}; the documented heuristic gives {want:?}"),
                                    case(),
                                );
                            }
                            if (gw, gh) != (w, h) {
                                ev::violation("C15|dims", format!("{gw}x{gh}"), case());
                            }
                            if has_unspec(&c) {
                                *lg.entry(format!("{:?}/{:?}/{:?}", cfg.matrix_coefficients, cfg.color_primaries, cfg.transfer_characteristics)).or_insert(0) += 1;
                            }
                        }
                    }
                }
            }
        }
        }
        evals.fetch_add(n, std::sync::atomic::Ordering::Relaxed);
        let mut g = guessed.lock().unwrap();
        for (k, v) in lg {
            *g.entry(k).or_insert(0) += v;
        }
    });
    // Rgb::new: Unspecified -> sRGB / BT709
    let mut n2 = 0u64;
    for t in ALL_TC.iter().copied().chain([TC::Unspecified]) {
        for p in ALL_CP.iter().copied().chain([CP::Unspecified]) {
            for (w, h) in [(1usize, 1usize), (2, 576), (1280, 1)] {
                n2 += 1;
                let r = Rgb::new(vec![[0.5; 3]; w * h], w, h, t, p).unwrap();
                let wt = if t == TC::Unspecified { TC::SRGB } else { t };
                let wp = if p == CP::Unspecified { CP::BT709 } else { p };
                if r.transfer() != wt || r.primaries() != wp {
                    ev::violation("C15|resolution-table|Rgb::new", format!("Rgb::new({t:?},{p:?}) reports ({:?},{:?}), expected ({wt:?},{wp:?})", r.transfer(), r.primaries()), J::obj().set("kind", "c15-rgbnew").set("transfer", format!("{t:?}")).set("primaries", format!("{p:?}")));
                }
            }
        }
    }
    let g = guessed.lock().unwrap();
    ev::observe("resolved_triples_histogram(matrix/primaries/transfer: constructions with an Unspecified field)", J::Obj(g.iter().map(|(k, v)| (k.clone(), J::from(*v))).collect()));
    ev::observe("table_sizes", sizes.len());
    let _ = ctx;
    (evals.load(std::sync::atomic::Ordering::Relaxed) + n2, sizes.len() as u64)
}

fn max_code_diff<T: Pixel>(a: &Yuv<T>, b: &Yuv<T>) -> f64 {
    let mut worst = 0.0f64;
    for pl in 0..3 {
        let (pa, pb) = (&a.data()[pl], &b.data()[pl]);
        if pa.cfg.width != pb.cfg.width || pa.cfg.height != pb.cfg.height {
            return f64::INFINITY;
        }
        for y in 0..pa.cfg.height {
            for x in 0..pa.cfg.width {
                let d = (u32::cast_from(pa.p(x, y)) as f64 - u32::cast_from(pb.p(x, y)) as f64).abs();
                worst = worst.max(d);
            }
        }
    }
    worst
}

fn in_gamut_colors(rng: &mut Rng, n: usize) -> Vec<[f32; 3]> {
    let mut v = vec![[0.01f32, 0.2, 0.5], [0.05, 0.05, 0.05], [1.0, 1.0, 1.0], [0.0, 0.0, 0.0], [0.9, 0.1, 0.3], [0.2, 0.8, 0.4]];
    while v.len() < n {
        v.push([rng.unit() as f32, rng.unit() as f32, rng.unit() as f32]);
    }
    v.truncate(n);
    v
}

/// Part 2 for one (size, matrix, mask, depth): conversions into Yuv given Unspecified fields.
fn c15_labels_case<T: Pixel>(ctx: &Ctx, idx: u64, w: usize, h: usize, m: MC, mask: u8, depth: u8, worst: &mut f64, stats: &mut BTreeMap<String, u64>) -> u64 {
    let u8s = std::mem::size_of::<T>() == 1;
    let mut rng = Rng::new(ctx.seed, 0x0C15_0000 + idx);
    let p0 = PRIMARIES[(idx % 10) as usize + usize::from(idx % 10 >= 7)]; // skip ST428 (index 7)
    let t0 = TRANSFERS[((idx / 3) % 14) as usize];
    let base = cfg_full(m, t0, p0, idx % 2 == 0, depth, (0, 0));
    let c = subsets(base, mask);
    let want = resolve(c, w, h);
    let budget = crate::mon_xyb::budget_codes(depth);
    let case = |what: &str| J::obj().set("kind", "c15-labels").set("w", w).set("h", h).set("cfg", cfg_json(&c)).set("u8", u8s).set("conversion", what).set("seed", ctx.seed).set("index", idx);
    let n = w * h;
    // in-gamut content: RGB in [0,1]^3 in the space the resolved config names, linearised by the library
    let colors = in_gamut_colors(&mut rng, n.min(64));
    let px: Vec<[f32; 3]> = (0..n).map(|i| colors[i % colors.len()]).collect();
    let rgb_in = Rgb::new(px.clone(), w, h, want.transfer_characteristics, want.color_primaries).unwrap();
    let Ok(lin_in) = LinearRgb::try_from(rgb_in.clone()) else { return 0 };
    let xyb_in = Xyb::from(lin_in.clone());
    let mut evals = 0u64;
    for (what, src) in [("Yuv::try_from((LinearRgb,cfg))", 0), ("Yuv::try_from((Xyb,cfg))", 1), ("Yuv::try_from((Rgb,cfg))", 2), ("Yuv::try_from((&Rgb,cfg))", 3)] {
        let call = |cfg: YuvConfig| -> Result<Yuv<T>, ConversionError> {
            match src {
                0 => Yuv::try_from((lin_in.clone(), cfg)),
                1 => Yuv::try_from((xyb_in.clone(), cfg)),
                2 => Yuv::try_from((rgb_in.clone(), cfg)),
                _ => Yuv::try_from((&rgb_in, cfg)),
            }
        };
        evals += 1;
        let y1 = match ev::guarded(|| call(c)) {
            Err(msg) => {
                ev::violation(format!("C15|panic|{}", ev::panic_site(&msg)), msg, case(what));
                continue;
            }
            Ok(Err(_)) => {
                *stats.entry(format!("{what}: Err")).or_insert(0) += 1;
                continue; // the property speaks about calls that succeed
            }
            Ok(Ok(y)) => y,
        };
        *stats.entry(format!("{what}: Ok")).or_insert(0) += 1;
        let c1 = y1.config();
        if has_unspec(&c1) {
            ev::violation(format!("C15|still-unspecified|{what}|depth={depth}"), format!("{what} with {c:?} on a {w}x{h} image stores config {c1:?}"), case(what));
            continue;
        }
        if c1 != want {
            ev::violation(format!("C15|resolution-table|{what}"), format!("{what} with {c:?} on {w}x{h} stores {c1:?}; the documented heuristic gives {want:?}"), case(what));
            continue;
        }
        // (iii) same call with the stored config given explicitly
        if let Ok(y2) = call(c1) {
            let d = max_code_diff(&y1, &y2) / budget;
            if d > *worst {
                *worst = d;
            }
            if !(d <= 1.0) {
                ev::violation(
                    format!("C15|label-vs-content|{what}|explicit-config"),
                    format!("{what} on {w}x{h}: given {c:?} the output differs by {:.0} codes (budget {budget:.1}) from the output for its own stored config {c1:?}", d * budget),
                    case(what),
                );
                continue;
            }
        } else {
            ev::violation(format!("C15|explicit-config-fails|{what}"), format!("the stored config {c1:?} is rejected when given explicitly"), case(what));
            continue;
        }
        // (ii) decode with the stored labels and re-encode both with the fully specified c1
        let ok = match src {
            0 | 1 => LinearRgb::try_from(&y1).ok().and_then(|back| {
                let a: Yuv<T> = Yuv::try_from((lin_in.clone(), c1)).ok()?;
                let b: Yuv<T> = Yuv::try_from((back, c1)).ok()?;
                Some(max_code_diff(&a, &b))
            }),
            _ => Rgb::try_from(&y1).ok().and_then(|back| {
                let a: Yuv<T> = Yuv::try_from((&rgb_in, c1)).ok()?;
                let b: Yuv<T> = Yuv::try_from((&back, c1)).ok()?;
                Some(max_code_diff(&a, &b))
            }),
        };
        match ok {
            None => ev::violation(format!("C15|own-labels-do-not-decode|{what}"), format!("the output of {what} cannot be decoded / re-encoded with its own config {c1:?}"), case(what)),
            Some(d) => {
                let r = d / budget;
                if r > *worst {
                    *worst = r;
                }
                if !(r <= 1.0) {
                    ev::violation(
                        format!("C15|label-vs-content|{what}|decode-with-own-config"),
                        format!("{what} on {w}x{h} with {c:?}: decoding the output with its stored config {c1:?} misses the input by {d:.0} codes (budget {budget:.1})"),
                        case(what),
                    );
                }
            }
        }
    }
    evals
}

fn c15_rgb_targets(ctx: &Ctx) -> u64 {
    // conversions into Rgb given Unspecified transfer/primaries
    let mut rng = Rng::new(ctx.seed, 0x0C15_AAAA);
    let px = in_gamut_colors(&mut rng, 64);
    let mut n = 0u64;
    for mask in 1u8..4 {
        for t in TRANSFERS {
            for p in PRIMARIES {
                if p == CP::ST428 {
                    continue;
                }
                let tt = if mask & 1 != 0 { TC::Unspecified } else { t };
                let pp = if mask & 2 != 0 { CP::Unspecified } else { p };
                let (wt, wp) = (if tt == TC::Unspecified { TC::SRGB } else { tt }, if pp == CP::Unspecified { CP::BT709 } else { pp });
                // in-gamut content for the target space: RGB in [0,1]^3 carrying the labels the call must resolve to, linearised by the library
                let Ok(lin) = LinearRgb::try_from(Rgb::new(px.clone(), 8, 8, wt, wp).unwrap()) else { continue };
                for src in 0..2 {
                    n += 1;
                    let what = if src == 0 { "Rgb::try_from((LinearRgb,t,p))" } else { "Rgb::try_from((Xyb,t,p))" };
                    let case = || J::obj().set("kind", "c15-rgb").set("transfer", format!("{tt:?}")).set("primaries", format!("{pp:?}")).set("conversion", what);
                    let r = if src == 0 { Rgb::try_from((lin.clone(), tt, pp)) } else { Rgb::try_from((Xyb::from(lin.clone()), tt, pp)) };
                    let Ok(r) = r else { continue };
                    if r.transfer() != wt || r.primaries() != wp {
                        ev::violation(format!("C15|resolution-table|{what}"), format!("{what} given ({tt:?},{pp:?}) labels its output ({:?},{:?}), expected ({wt:?},{wp:?})", r.transfer(), r.primaries()), case());
                        continue;
                    }
                    // decoding with the stored labels reproduces the input (compared as 10-bit full-range BT.709 codes)
                    let cfgc = cfg_full(MC::BT709, TC::SRGB, CP::BT709, true, 10, (0, 0));
                    if let Ok(back) = LinearRgb::try_from(r) {
                        let a: Result<Yuv<u16>, _> = Yuv::try_from((lin.clone(), cfgc));
                        let b: Result<Yuv<u16>, _> = Yuv::try_from((back, cfgc));
                        if let (Ok(a), Ok(b)) = (a, b) {
                            let d = max_code_diff(&a, &b);
                            if !(d <= crate::mon_xyb::budget_codes(10)) {
                                ev::violation(format!("C15|label-vs-content|{what}"), format!("{what} given ({tt:?},{pp:?}): decoding with the stored labels misses the input by {d:.0} ten-bit codes"), case());
                            }
                        }
                    }
                }
            }
        }
    }
    n
}

pub fn c15(ctx: &Ctx) {
    let (n1, nsizes) = c15_table(ctx);
    // Part 2
    let sizes: Vec<(usize, usize)> = vec![(2, 576), (576, 2), (2, 480), (480, 2), (2, 488), (488, 2), (1280, 2), (2, 1280), (2, 2), (16, 480), (480, 16), (16, 576), (2, 577), (1279, 2), (6, 481), (2, 66112), (66176, 2), (1280, 576), (1280, 480)];
    let all_m: Vec<MC> = ALL_MC.iter().copied().chain([MC::Unspecified]).collect();
    let mut cases = Vec::new();
    for (si, &(w, h)) in sizes.iter().enumerate() {
        for (mi, &m) in all_m.iter().enumerate() {
            for mask in 1u8..8 {
                for (di, depth) in [8u8, 10, 12, 16].iter().enumerate() {
                    // the images with a side beyond 16 bits, and the two where width and height decide together (HD by
                    // width at an SD line count): a thin slice
                    if w * h > 100_000 && !(*depth == 8 && mask % 2 == 1 && mi % 4 == 2) {
                        continue;
                    }
                    if w * h > 500_000 && !(mask == 3 || mask == 7) {
                        continue;
                    }
                    cases.push((w, h, m, mask, *depth, (si * 1000 + mi * 50 + mask as usize * 5 + di) as u64));
                }
            }
        }
    }
    let worst = std::sync::Mutex::new(0.0f64);
    let stats: std::sync::Mutex<BTreeMap<String, u64>> = std::sync::Mutex::new(BTreeMap::new());
    let n2 = std::sync::atomic::AtomicU64::new(0);
    ev::par_ranges("C15", cases.len() as u64, 8, |_w, a, b| {
        let mut lw = 0.0f64;
        let mut ls = BTreeMap::new();
        let mut n = 0u64;
        for i in a..b {
            let (w, h, m, mask, depth, idx) = cases[i as usize];
            n += c15_labels_case::<u16>(ctx, idx, w, h, m, mask, depth, &mut lw, &mut ls);
            if depth == 8 {
                n += c15_labels_case::<u8>(ctx, idx, w, h, m, mask, depth, &mut lw, &mut ls);
            }
        }
        n2.fetch_add(n, std::sync::atomic::Ordering::Relaxed);
        let mut g = worst.lock().unwrap();
        if lw > *g {
            *g = lw;
        }
        let mut gs = stats.lock().unwrap();
        for (k, v) in ls {
            *gs.entry(k).or_insert(0) += v;
        }
    });
    let n3 = c15_rgb_targets(ctx);
    ev::observe("labels_cases", cases.len());
    ev::observe("labels_worst_diff_over_budget", *worst.lock().unwrap());
    ev::observe("labels_call_outcomes", J::Obj(stats.lock().unwrap().iter().map(|(k, v)| (k.clone(), J::from(*v))).collect()));
    ev::observe("OBSERVATION", "Yuv::try_from((Rgb|&Rgb, cfg)) applies only the matrix; the transfer/primaries labels it stores come from cfg (resolved by the heuristic), not from the Rgb's own labels. This monitor evaluates 'labels match content' on the RGB pixel data for those conversions.");
    ev::sample(J::obj().set("size", [2, 576]).set("matrix", "ST170M").set("unspecified", "primaries+transfer").set("expected_resolution", "BT470BG / BT1886"));
    ev::add_evals(n1 + n2.load(std::sync::atomic::Ordering::Relaxed) + n3);
    ev::add_nontrivial(nsizes * 16 * 7 + cases.len() as u64);
    ev::exhaustive(false);
    ev::rule(
        "Part 1: Yuv::new on real frames of sizes around the heuristic's thresholds (widths/heights {1..4,16,479..489,575..577,720,1080,1279..1281,1920} with one side small, plus square and video sizes) x 15 matrix values x every subset of {matrix,primaries,transfer} set to Unspecified \
         x {u8/8,u16/10,u16/16}, compared with the monitor's own copy of the documented mpv table; Rgb::new for all transfer x primaries. Part 2: every conversion into Yuv that takes a config (from LinearRgb, Xyb, Rgb, &Rgb) with each non-empty Unspecified subset, \
         15 sizes hitting every branch in both orientations x 15 matrices x depths 8,10,12,16, in-gamut content: stored config has no Unspecified field, equals the table, output equals (within the C09 budget) the output for the stored config given explicitly, \
         and decoding with the stored config reproduces the input within the budget; likewise conversions into Rgb. distinct = enumerated (size, matrix, subset, depth) cases",
    );
}

pub fn replay(mon: &str, case: &J) -> bool {
    let kind = case.get("kind").and_then(J::as_str).unwrap_or("");
    if mon == "C14" && kind == "c14" {
        let (Some(m), Some(p), Some(t)) = (case.get("matrix").and_then(J::as_str).and_then(mc_by_name), case.get("primaries").and_then(J::as_str).and_then(cp_by_name), case.get("transfer").and_then(J::as_str).and_then(tc_by_name)) else { return false };
        let u8s = case.get("u8").and_then(J::as_bool).unwrap_or(true);
        let res = if u8s { run_triple::<u8>(m, p, t) } else { run_triple::<u16>(m, p, t) };
        ev::add_evals(10);
        match res {
            Err(msg) => ev::violation("C14|replay-panic", msg, case.clone()),
            Ok(r) => {
                let mut base = BTreeMap::new();
                let mut tb = BTreeMap::new();
                let mut info = 0;
                judge_triple(m, p, t, u8s, &r, &mut base, &mut tb, &mut info);
                ev::observe("replay", J::Obj(tb.iter().map(|(k, v)| (k.clone(), J::from(*v))).collect()));
                ev::note("history-dependent violations need the original visiting order: re-run the check with the same seed");
            }
        }
        return true;
    }
    if mon == "C15" && kind == "c15-labels" {
        let (Some(w), Some(h), Some(idx), Some(seed)) = (case.get("w").and_then(J::as_u64), case.get("h").and_then(J::as_u64), case.get("index").and_then(J::as_u64), case.get("seed").and_then(J::as_u64)) else { return false };
        let Some(cj) = case.get("cfg") else { return false };
        let m = cj.get("matrix").and_then(J::as_str).and_then(mc_by_name).unwrap_or(MC::BT709);
        let mut mask = 0u8;
        if m == MC::Unspecified {
            mask |= 1;
        }
        if cj.get("primaries").and_then(J::as_str) == Some("Unspecified") {
            mask |= 2;
        }
        if cj.get("transfer").and_then(J::as_str) == Some("Unspecified") {
            mask |= 4;
        }
        let depth = cj.get("bit_depth").and_then(J::as_u64).unwrap_or(8) as u8;
        let ctx = Ctx { monitor: "C15".into(), tier: Tier::Quick, seed, build: String::new(), out: None, args: Default::default() };
        let mut worst = 0.0;
        let mut st = BTreeMap::new();
        // the matrix of the base config: when the case had it Unspecified the base matrix is irrelevant
        let mb = if m == MC::Unspecified { MC::BT709 } else { m };
        let n = if case.get("u8").and_then(J::as_bool).unwrap_or(false) {
            c15_labels_case::<u8>(&ctx, idx, w as usize, h as usize, if mask & 1 != 0 { MC::Unspecified } else { mb }, mask, depth, &mut worst, &mut st)
        } else {
            c15_labels_case::<u16>(&ctx, idx, w as usize, h as usize, if mask & 1 != 0 { MC::Unspecified } else { mb }, mask, depth, &mut worst, &mut st)
        };
        ev::add_evals(n.max(1));
        ev::observe("replay_worst_diff_over_budget", worst);
        return true;
    }
    if mon == "C15" && kind == "c15-table" {
        let (Some(w), Some(h)) = (case.get("w").and_then(J::as_u64), case.get("h").and_then(J::as_u64)) else { return false };
        let Some(cj) = case.get("cfg") else { return false };
        let c = cfg_full(
            cj.get("matrix").and_then(J::as_str).and_then(mc_by_name).unwrap_or(MC::Unspecified),
            cj.get("transfer").and_then(J::as_str).and_then(tc_by_name).unwrap_or(TC::Unspecified),
            cj.get("primaries").and_then(J::as_str).and_then(cp_by_name).unwrap_or(CP::Unspecified),
            cj.get("full_range").and_then(J::as_bool).unwrap_or(false),
            cj.get("bit_depth").and_then(J::as_u64).unwrap_or(8) as u8,
            cj.get("ss").and_then(J::as_arr).map_or((0, 0), |a| (a.first().and_then(J::as_u64).unwrap_or(0) as u8, a.get(1).and_then(J::as_u64).unwrap_or(0) as u8)),
        );
        let ss = (c.subsampling_x, c.subsampling_y);
        let pad = case.get("pad").and_then(J::as_u64).unwrap_or(0) as usize;
        let (w, h) = (w as usize, h as usize);
        let got = if c.bit_depth == 8 {
            let f: Frame<u8> = mk_frame(w, h, ss, pad, |_, _, _| 100);
            Yuv::new(f, c).map(|y| y.config())
        } else {
            let f: Frame<u16> = mk_frame(w, h, ss, pad, |_, _, _| 100);
            Yuv::new(f, c).map(|y| y.config())
        };
        let want = resolve(c, w, h);
        ev::add_evals(1);
        ev::observe("replay", J::obj().set("got", format!("{got:?}")).set("want", format!("{want:?}")));
        if got != Ok(want) {
            ev::violation("C15|replay", format!("{got:?} vs {want:?}"), case.clone());
        }
        return true;
    }
    false
}
