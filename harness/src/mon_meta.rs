use crate::{json::J, Ctx};
pub fn c14(_ctx: &Ctx) {}
pub fn c15(_ctx: &Ctx) {}
pub fn replay(_m: &str, _c: &J) -> bool { false }
