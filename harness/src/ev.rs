//! Evidence accumulation: global report, violation log, distinct-case bitset,
//! parallel range driver with panic capture.
use crate::json::J;
use std::collections::BTreeMap;
use std::panic::{catch_unwind, AssertUnwindSafe};
use std::sync::atomic::{AtomicU64, Ordering};
use std::sync::Mutex;

pub struct Viol {
    pub sig: String,
    pub detail: String,
    pub case: J,
}

#[derive(Default)]
pub struct Report {
    pub evaluations: u64,
    pub nontrivial_direct: u64,
    pub rule: String,
    pub exhaustive: Option<bool>,
    pub samples: Vec<J>,
    pub observed: BTreeMap<String, J>,
    pub viols: Vec<Viol>,
    pub viol_by_sig: BTreeMap<String, u64>,
    pub inconclusive: Option<String>,
    pub notes: Vec<String>,
}

pub static REPORT: Mutex<Option<Report>> = Mutex::new(None);
const MAX_PER_SIG: u64 = 3;
const MAX_SAMPLES: usize = 24;

pub fn init() {
    *REPORT.lock().unwrap() = Some(Report::default());
}
pub fn with<R>(f: impl FnOnce(&mut Report) -> R) -> R {
    let mut g = REPORT.lock().unwrap_or_else(|e| e.into_inner());
    f(g.as_mut().expect("report initialised"))
}
pub fn add_evals(n: u64) {
    with(|r| r.evaluations += n);
}
pub fn add_nontrivial(n: u64) {
    with(|r| r.nontrivial_direct += n);
}
pub fn rule(s: &str) {
    with(|r| r.rule = s.to_string());
}
pub fn exhaustive(b: bool) {
    with(|r| r.exhaustive = Some(b));
}
pub fn observe(k: &str, v: impl Into<J>) {
    let v = v.into();
    with(|r| {
        r.observed.insert(k.to_string(), v);
    });
}
pub fn sample(v: impl Into<J>) {
    let v = v.into();
    with(|r| {
        if r.samples.len() < MAX_SAMPLES {
            r.samples.push(v);
        }
    });
}
pub fn note(s: impl Into<String>) {
    with(|r| r.notes.push(s.into()));
}
pub fn inconclusive(s: impl Into<String>) {
    let s = s.into();
    with(|r| {
        if r.inconclusive.is_none() {
            r.inconclusive = Some(s);
        }
    });
}
/// Record a violation. `sig` identifies the failing call site / input class (used
/// to match known findings); only the first few per signature keep their case.
pub fn violation(sig: impl Into<String>, detail: impl Into<String>, case: J) {
    let sig = sig.into();
    let detail = detail.into();
    with(|r| {
        let c = r.viol_by_sig.entry(sig.clone()).or_insert(0);
        *c += 1;
        if *c <= MAX_PER_SIG {
            r.viols.push(Viol { sig, detail, case });
        }
    });
}
pub fn violation_count() -> u64 {
    with(|r| r.viol_by_sig.values().sum())
}

// ---------------------------------------------------------------- distinct
/// Lower bound on the number of distinct cases: a bitset indexed by a 64-bit
/// hash of the case. Collisions merge, so popcount <= true distinct count.
pub struct Distinct {
    bits: Vec<AtomicU64>,
    mask: u64,
}
impl Distinct {
    pub fn new(log2_bits: u32) -> Self {
        let words = 1usize << (log2_bits - 6);
        let mut bits = Vec::with_capacity(words);
        bits.resize_with(words, || AtomicU64::new(0));
        Distinct { bits, mask: (1u64 << log2_bits) - 1 }
    }
    #[inline]
    pub fn insert(&self, h: u64) {
        let i = h & self.mask;
        self.bits[(i >> 6) as usize].fetch_or(1u64 << (i & 63), Ordering::Relaxed);
    }
    pub fn count(&self) -> u64 {
        self.bits.iter().map(|w| w.load(Ordering::Relaxed).count_ones() as u64).sum()
    }
    pub fn capacity(&self) -> u64 {
        self.mask + 1
    }
}

// ---------------------------------------------------------------- worst tracker
#[derive(Clone, Copy, Debug)]
pub struct Worst<T: Copy> {
    pub err: f64,
    pub at: Option<T>,
}
impl<T: Copy> Worst<T> {
    pub const fn new() -> Self {
        Worst { err: -1.0, at: None }
    }
    #[inline]
    pub fn upd(&mut self, err: f64, at: T) {
        if err > self.err || (err.is_nan() && !self.err.is_nan()) {
            self.err = err;
            self.at = Some(at);
        }
    }
    pub fn merge(&mut self, o: &Self) {
        if let Some(at) = o.at {
            self.upd(o.err, at);
        }
    }
}

// ---------------------------------------------------------------- threads
pub fn nthreads() -> usize {
    std::env::var("YVMON_THREADS")
        .ok()
        .and_then(|s| s.parse().ok())
        .unwrap_or_else(|| std::thread::available_parallelism().map_or(8, |n| n.get()))
}

thread_local! {
    pub static LAST_PANIC: std::cell::RefCell<String> = const { std::cell::RefCell::new(String::new()) };
}

pub fn install_panic_hook() {
    std::panic::set_hook(Box::new(|info| {
        let msg = if let Some(s) = info.payload().downcast_ref::<&str>() {
            (*s).to_string()
        } else if let Some(s) = info.payload().downcast_ref::<String>() {
            s.clone()
        } else {
            "<non-string panic>".to_string()
        };
        let loc = info.location().map_or(String::new(), |l| format!(" at {}:{}", l.file(), l.line()));
        if msg.starts_with("unsafe precondition") || msg.contains("cannot unwind") || msg.contains("misaligned") || msg.contains("null pointer") {
            // a non-unwinding panic (e.g. std's ub_checks) aborts the process: leave the message for the parent
            eprintln!("{msg}{loc}");
        }
        LAST_PANIC.with(|p| *p.borrow_mut() = format!("{msg}{loc}"));
    }));
}
pub fn last_panic() -> String {
    LAST_PANIC.with(|p| p.borrow().clone())
}

/// run `f`, returning Err(panic message) if it panicked
pub fn guarded<R>(f: impl FnOnce() -> R) -> Result<R, String> {
    match catch_unwind(AssertUnwindSafe(f)) {
        Ok(r) => Ok(r),
        Err(_) => Err(last_panic()),
    }
}

/// Work-stealing over [0,total) in chunks; `f(worker, a, b)`. A panic escaping a
/// chunk is an observed event: recorded as a violation with signature
/// `<prop>|panic-in-monitor|<where>` (no monitor expects the library to panic
/// unless it guards the call itself).
pub fn par_ranges(prop: &str, total: u64, chunk: u64, f: impl Fn(usize, u64, u64) + Sync) {
    let next = AtomicU64::new(0);
    let nt = nthreads().max(1);
    std::thread::scope(|s| {
        for w in 0..nt {
            let next = &next;
            let f = &f;
            s.spawn(move || {
                loop {
                    let a = next.fetch_add(chunk, Ordering::Relaxed);
                    if a >= total {
                        break;
                    }
                    let b = (a + chunk).min(total);
                    if let Err(msg) = guarded(|| f(w, a, b)) {
                        let site = panic_site(&msg);
                        violation(
                            format!("{prop}|panic|{site}"),
                            format!("library panicked inside monitor chunk [{a},{b}): {msg}"),
                            J::obj().set("chunk_from", a).set("chunk_to", b).set("panic", msg.clone()),
                        );
                    }
                }
                yuvxyb_math::verif::flush();
            });
        }
    });
}

/// reduce a panic message to a stable site string (file:line if present)
pub fn panic_site(msg: &str) -> String {
    // a trap raised by a hook: name the unsafe site, not the line of the hook module
    if let Some(rest) = msg.strip_prefix("verif-hooks: unsafe precondition violated at ") {
        let site = rest.split(": ").next().unwrap_or("unknown");
        return format!("hook:{site}");
    }
    if let Some(i) = msg.rfind(" at ") {
        let loc = &msg[i + 4..];
        // keep "<crate dir>/src/file.rs:line" for dependencies and the math crate, "src/file.rs:line" for the crate under test
        if let Some(j) = loc.rfind("/src/") {
            let parent = loc[..j].rsplit('/').next().unwrap_or("");
            // "name-1.2.3" (a registry crate) or the math sub-crate
            let versioned = parent == "yuvxyb-math" || parent.rsplit('-').next().is_some_and(|v| v.contains('.') && v.chars().all(|c| c.is_ascii_digit() || c == '.'));
            return if versioned { format!("{parent}{}", &loc[j..]) } else { loc[j + 1..].to_string() };
        }
        if let Some(j) = loc.find("src/") {
            return loc[j..].to_string();
        }
        return loc.to_string();
    }
    "unknown".to_string()
}

pub fn hooks_json() -> J {
    use yuvxyb_math::verif as vh;
    vh::flush();
    let snap = vh::snapshot();
    let mut o = J::obj();
    for (i, s) in snap.iter().enumerate() {
        o.put(
            vh::SITE_NAMES[i],
            J::obj()
                .set("events", s.events)
                .set("violations", s.violations)
                .set("max_idx", s.max_idx)
                .set("min_margin", if s.min_margin == u64::MAX { J::Null } else { J::from(s.min_margin) }),
        );
    }
    o
}

// ---------------------------------------------------------------- child-process protocol
/// Selection of cases for an isolated child process: case `i` runs iff `i % nshards == shard && i >= from`.
/// Before each case the child prints `CASE <i> <desc>` and flushes, so the parent can attribute an
/// abort / sanitizer report to the case that was running.
pub struct ChildSel {
    pub child: bool,
    pub shard: u64,
    pub nshards: u64,
    pub from: u64,
}
impl ChildSel {
    pub fn from_ctx(ctx: &crate::Ctx) -> Self {
        ChildSel {
            child: ctx.flag("child"),
            shard: ctx.arg_u64("shard").unwrap_or(0),
            nshards: ctx.arg_u64("nshards").unwrap_or(1).max(1),
            from: ctx.arg_u64("from").unwrap_or(0),
        }
    }
    #[inline]
    pub fn wants(&self, i: u64) -> bool {
        i % self.nshards == self.shard && i >= self.from
    }
    pub fn announce(&self, i: u64, desc: &str) {
        if self.child {
            use std::io::Write;
            let out = std::io::stdout();
            let mut l = out.lock();
            let _ = writeln!(l, "CASE {i} {desc}");
            let _ = l.flush();
        }
    }
}
