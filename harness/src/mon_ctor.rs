//! C12: constructors accept exactly the well-formed images and keep them verbatim.
use crate::ev;
use crate::frames::{self, FrameSpec};
use crate::gen::Rng;
use crate::json::J;
use crate::util::*;
use crate::{Ctx, Tier};
use std::sync::atomic::{AtomicU64, Ordering::Relaxed};
use std::sync::Mutex;
use yuvxyb::*;

fn errname(e: YuvError) -> &'static str {
    match e {
        YuvError::SubsamplingMismatch => "SubsamplingMismatch",
        YuvError::InvalidLumaWidth => "InvalidLumaWidth",
        YuvError::InvalidLumaHeight => "InvalidLumaHeight",
        YuvError::InvalidData => "InvalidData",
    }
}

/// Returns (accepted, error name) and reports violations of the geometry contract.
fn check_spec<T: Pixel>(s: &FrameSpec, rng: &mut Rng, confusion: &mut std::collections::BTreeMap<(String, String), u64>) {
    let mut frame: Frame<T> = frames::build(s, rng);
    // the luma plane's own decimation fields are not part of the contract: a third of the frames carry the
    // chroma decimation there too (callers that pass one decimation to every Plane::new)
    if (s.w + s.h + s.pad.0 + s.cu.0) % 3 == 0 {
        frame.planes[0].cfg.xdec = s.du.0.max(s.ss.0 as usize);
        frame.planes[0].cfg.ydec = s.du.1.max(s.ss.1 as usize);
    }
    let keep = frame.clone();
    let cfg = s.config();
    let m = s.model();
    let res = ev::guarded(|| Yuv::new(frame, cfg));
    let model_s = if m.well_formed() {
        "well-formed".to_string()
    } else {
        let mut v = Vec::new();
        if m.dec_mismatch {
            v.push("dec");
        }
        if m.bad_width {
            v.push("width");
        }
        if m.bad_height {
            v.push("height");
        }
        if m.bad_chroma_size {
            v.push("chroma-size");
        }
        v.join("+")
    };
    match res {
        Err(msg) => {
            *confusion.entry((model_s, "panic".into())).or_insert(0) += 1;
            ev::violation(format!("C12|yuv-new-panic|{}", ev::panic_site(&msg)), format!("Yuv::new panicked for {}: {msg}", s.desc()), s.json());
        }
        Ok(Ok(y)) => {
            *confusion.entry((model_s.clone(), "Ok".into())).or_insert(0) += 1;
            if !m.well_formed() {
                ev::violation(format!("C12|accepted-malformed|{model_s}"), format!("Yuv::new accepted a frame that is malformed ({model_s}): {}", s.desc()), s.json());
                return;
            }
            // verbatim: planes, dimensions, config
            if y.width() != s.w || y.height() != s.h || y.config() != cfg {
                ev::violation("C12|yuv-not-verbatim|dims-or-config", format!("accepted image reports {}x{} {:?}; given {}x{} {:?}", y.width(), y.height(), y.config(), s.w, s.h, cfg), s.json());
            }
            if y.data().len() != 3 || (0..3).any(|p| y.data()[p] != keep.planes[p]) {
                ev::violation("C12|yuv-not-verbatim|planes", format!("accepted image's planes differ from the frame passed in: {}", s.desc()), s.json());
            }
        }
        Ok(Err(e)) => {
            *confusion.entry((model_s.clone(), errname(e).into())).or_insert(0) += 1;
            if m.well_formed() {
                ev::violation(format!("C12|rejected-well-formed|{}", errname(e)), format!("Yuv::new rejected a well-formed frame with {e:?}: {}", s.desc()), s.json());
            } else if !m.allows(e) {
                ev::violation(format!("C12|wrong-error|{model_s}|{}", errname(e)), format!("Yuv::new reported {e:?} but the failing condition is {model_s}: {}", s.desc()), s.json());
            }
        }
    }
}

/// one out-of-range sample at position `pos` (buffer index) of plane `pl`
fn check_sample(s: &FrameSpec, pl: usize, pos: usize, rng: &mut Rng) -> Option<(bool, bool)> {
    // only u16 with depth < 16 can hold an out-of-range sample
    let mut f: Frame<u16> = frames::build(s, rng);
    let p = &mut f.planes[pl];
    if pos >= p.data.len() {
        return None;
    }
    let stride = p.cfg.stride;
    let (y, x) = (pos / stride.max(1), pos % stride.max(1));
    let visible = y >= p.cfg.yorigin && y < p.cfg.yorigin + p.cfg.height && x >= p.cfg.xorigin && x < p.cfg.xorigin + p.cfg.width;
    let maxv = (1u32 << s.depth) - 1;
    // deterministic context variants: every sample of the plane at the peak legal code, a few peak codes
    // sprinkled before the bad sample, and/or decimation fields on the luma plane
    let variant = (pos + 3 * pl + s.depth as usize + s.w) % 6;
    if variant == 1 || variant == 4 {
        for v in p.data.iter_mut() {
            *v = maxv as u16;
        }
    } else if variant == 2 {
        for k in 0..pos.min(3) {
            p.data[(pos * (k + 1)) / 4] = maxv as u16;
        }
    }
    p.data[pos] = (maxv + 1 + rng.below((65535 - maxv) as u64) as u32) as u16;
    if variant >= 3 {
        f.planes[0].cfg.xdec = 1 + (pos % 2);
        f.planes[0].cfg.ydec = 1 + (pl % 2);
    }
    let r = ev::guarded(|| Yuv::new(f, s.config()));
    match r {
        Err(msg) => {
            ev::violation(format!("C12|yuv-new-panic|{}", ev::panic_site(&msg)), format!("Yuv::new panicked: {msg}"), s.json().set("bad_plane", pl).set("bad_pos", pos));
            None
        }
        Ok(r) => {
            let rejected = matches!(r, Err(YuvError::InvalidData));
            let other_err = matches!(r, Err(e) if e != YuvError::InvalidData);
            if other_err {
                ev::violation("C12|sample|wrong-error", format!("{r:?} for an out-of-range sample in a well-formed frame {}", s.desc()), s.json().set("bad_plane", pl).set("bad_pos", pos));
            } else if visible && !rejected {
                ev::violation(
                    format!("C12|sample|visible-accepted|plane{pl}"),
                    format!("a visible sample above 2^{}-1 at plane {pl} ({x},{y}) was accepted: {}", s.depth, s.desc()),
                    s.json().set("bad_plane", pl).set("bad_pos", pos),
                );
            } else if !visible && rejected {
                ev::violation(
                    format!("C12|sample|padding-rejected|plane{pl}"),
                    format!("a padding sample (buffer index {pos}) above 2^{}-1 made Yuv::new fail: {}", s.depth, s.desc()),
                    s.json().set("bad_plane", pl).set("bad_pos", pos),
                );
            }
            Some((visible, rejected))
        }
    }
}

fn float_ctor_checks(ctx: &Ctx) -> u64 {
    let mut n = 0u64;
    let mut rng = Rng::new(ctx.seed, 0x0C12_F);
    let maxd: usize = 40;
    let mut counts = [0u64; 2];
    for len in 0..=maxd {
        // arbitrary bit patterns, and the values a constructor might be tempted to normalise (360, -0.0, NaN payloads, +-inf, >1, <0)
        let special = [360.0f32, -0.0, f32::from_bits(0x7FC0_1234), f32::INFINITY, f32::NEG_INFINITY, 1.5, -1.0, 720.0, -1e-45, 359.99997];
        let data: Vec<[f32; 3]> = (0..len)
            .map(|i| if (i + len) % 3 == 1 { [rng.pick(&special), rng.pick(&special), rng.pick(&special)] } else { [rng.unit() as f32, rng.unit() as f32 * 360.0, f32::from_bits(rng.next() as u32)] })
            .collect();
        for w in 0..=maxd {
            for h in 0..=maxd {
                let want_ok = len == w * h;
                macro_rules! one {
                    ($name:expr, $ctor:expr, $get:expr) => {{
                        n += 1;
                        let r = ev::guarded(|| $ctor);
                        match r {
                            Err(msg) => ev::violation(format!("C12|{}-new-panic", $name), msg, J::obj().set("kind", "float-ctor").set("type", $name).set("len", len).set("w", w).set("h", h)),
                            Ok(Ok(img)) => {
                                counts[0] += 1;
                                let (d, iw, ih): (Vec<[f32; 3]>, usize, usize) = $get(&img);
                                if !want_ok {
                                    ev::violation(format!("C12|{}-accepted-mismatch", $name), format!("{}::new accepted len={len} for {w}x{h}", $name), J::obj().set("kind", "float-ctor").set("type", $name).set("len", len).set("w", w).set("h", h));
                                } else if iw != w || ih != h || d.len() != len || d.iter().zip(data.iter()).any(|(a, b)| (0..3).any(|c| a[c].to_bits() != b[c].to_bits())) {
                                    ev::violation(format!("C12|{}-not-verbatim", $name), format!("{}::new changed data or dimensions for len={len} {w}x{h}", $name), J::obj().set("kind", "float-ctor").set("type", $name).set("len", len).set("w", w).set("h", h));
                                }
                            }
                            Ok(Err(e)) => {
                                counts[1] += 1;
                                if want_ok {
                                    ev::violation(format!("C12|{}-rejected-match", $name), format!("{}::new rejected len={len} for {w}x{h}: {e:?}", $name), J::obj().set("kind", "float-ctor").set("type", $name).set("len", len).set("w", w).set("h", h));
                                } else if e != CreationError::ResolutionMismatch {
                                    ev::violation(format!("C12|{}-wrong-error", $name), format!("{e:?}"), J::Null);
                                }
                            }
                        }
                    }};
                }
                one!("Rgb", Rgb::new(data.clone(), w, h, TC::SRGB, CP::BT709), |i: &Rgb| (i.data().to_vec(), i.width(), i.height()));
                one!("LinearRgb", LinearRgb::new(data.clone(), w, h), |i: &LinearRgb| (i.data().to_vec(), i.width(), i.height()));
                one!("Xyb", Xyb::new(data.clone(), w, h), |i: &Xyb| (i.data().to_vec(), i.width(), i.height()));
                one!("Hsl", Hsl::new(data.clone(), w, h), |i: &Hsl| (i.data().to_vec(), i.width(), i.height()));
            }
        }
    }
    // dimension products that wrap around usize: len must equal the true product
    let big: [(usize, usize, usize); 7] = [
        (0, 1usize << 32, 1usize << 32),
        (4, (1usize << 63) + 2, 2),
        (0, usize::MAX, 0),
        (1, usize::MAX, usize::MAX),
        (0, 1usize << 63, 2),
        (6, (1usize << 63) + 3, 2),
        (16, (1usize << 62) + 4, 4),
    ];
    for (len, w, h) in big {
        let data = vec![[0.5f32; 3]; len];
        let true_eq = (w as u128) * (h as u128) == len as u128;
        macro_rules! big1 {
            ($name:expr, $ctor:expr) => {{
                n += 1;
                match ev::guarded(|| $ctor.is_ok()) {
                    Err(msg) => ev::violation(format!("C12|{}-new-panic|overflow", $name), format!("{}::new(len={len}, {w}, {h}) panicked: {msg}", $name), J::obj().set("kind", "float-ctor").set("type", $name).set("len", len).set("w", w).set("h", h)),
                    Ok(ok) => {
                        if ok != true_eq {
                            ev::violation(
                                format!("C12|{}-accepted-mismatch|overflow", $name),
                                format!("{}::new(len={len}, w={w}, h={h}) returned ok={ok}, but width*height {} len", $name, if true_eq { "==" } else { "!=" }),
                                J::obj().set("kind", "float-ctor").set("type", $name).set("len", len).set("w", w).set("h", h),
                            );
                        }
                    }
                }
            }};
        }
        big1!("Rgb", Rgb::new(data.clone(), w, h, TC::SRGB, CP::BT709));
        big1!("LinearRgb", LinearRgb::new(data.clone(), w, h));
        big1!("Xyb", Xyb::new(data.clone(), w, h));
        big1!("Hsl", Hsl::new(data.clone(), w, h));
    }
    // a copy exposes what the original exposes, whether made by clone() or by clone_from() into an image that held
    // something else (other size, other labels)
    {
        let a = vec![[0.1f32, 360.0, -0.0], [0.5, 0.25, f32::from_bits(0x7FC0_0001)], [1.0, 0.0, 0.75]];
        let same = |x: &[[f32; 3]], y: &[[f32; 3]]| x.len() == y.len() && x.iter().zip(y).all(|(p, q)| (0..3).all(|c| p[c].to_bits() == q[c].to_bits()));
        for t in [TC::BT470BG, TC::PerceptualQuantizer, TC::Linear] {
            for p in [CP::BT2020, CP::P3DCI, CP::BT709, CP::ST428] {
                n += 2;
                let src = Rgb::new(a.clone(), 3, 1, t, p).unwrap();
                let mut dst = Rgb::new(vec![[0.0; 3]; 8], 2, 4, TC::SRGB, CP::BT709).unwrap();
                dst.clone_from(&src);
                let cl = src.clone();
                for (what, img) in [("clone_from", &dst), ("clone", &cl)] {
                    if !same(img.data(), &a) || img.width() != 3 || img.height() != 1 || img.transfer() != t || img.primaries() != p {
                        ev::violation(
                            format!("C12|Rgb-not-verbatim|{what}"),
                            format!("Rgb::{what} of a 3x1 ({t:?}, {p:?}) image exposes {}x{} ({:?}, {:?})", img.width(), img.height(), img.transfer(), img.primaries()),
                            J::obj().set("kind", "rgb-labels").set("transfer", format!("{t:?}")).set("primaries", format!("{p:?}")),
                        );
                    }
                }
            }
        }
        macro_rules! copies {
            ($name:expr, $src:expr, $other:expr) => {{
                n += 2;
                let src = $src;
                let mut dst = $other;
                dst.clone_from(&src);
                let cl = src.clone();
                for (what, img) in [("clone_from", &dst), ("clone", &cl)] {
                    if !same(img.data(), &a) || img.width() != 3 || img.height() != 1 {
                        ev::violation(format!("C12|{}-not-verbatim|{what}", $name), format!("{}::{what} changed data or dimensions", $name), J::Null);
                    }
                }
            }};
        }
        copies!("LinearRgb", LinearRgb::new(a.clone(), 3, 1).unwrap(), LinearRgb::new(vec![[0.0; 3]; 8], 2, 4).unwrap());
        copies!("Xyb", Xyb::new(a.clone(), 3, 1).unwrap(), Xyb::new(vec![[0.0; 3]; 8], 2, 4).unwrap());
        copies!("Hsl", Hsl::new(a.clone(), 3, 1).unwrap(), Hsl::new(vec![[0.0; 3]; 8], 2, 4).unwrap());
    }
    // Rgb::new keeps the labels it is given (only Unspecified is resolved: sRGB / BT.709)
    for t in ALL_TC.iter().copied().chain([TC::Unspecified]) {
        for p in ALL_CP.iter().copied().chain([CP::Unspecified]) {
            n += 1;
            match Rgb::new(vec![[0.25, 0.5, 0.75]; 6], 3, 2, t, p) {
                Ok(r) => {
                    let wt = if t == TC::Unspecified { TC::SRGB } else { t };
                    let wp = if p == CP::Unspecified { CP::BT709 } else { p };
                    if r.transfer() != wt || r.primaries() != wp {
                        ev::violation(
                            "C12|Rgb-not-verbatim|labels",
                            format!("Rgb::new(.., {t:?}, {p:?}) exposes ({:?}, {:?})", r.transfer(), r.primaries()),
                            J::obj().set("kind", "rgb-labels").set("transfer", format!("{t:?}")).set("primaries", format!("{p:?}")),
                        );
                    }
                }
                Err(e) => ev::violation("C12|Rgb-rejected-match", format!("{e:?}"), J::Null),
            }
        }
    }
    ev::observe("float_ctor_cases", n);
    ev::observe("float_ctor_accepted", counts[0]);
    ev::observe("float_ctor_rejected", counts[1]);
    n
}

pub fn c12(ctx: &Ctx) {
    let full = ctx.tier == Tier::Thorough;
    let lumas: Vec<(usize, usize)> = frames::luma_sizes().into_iter().filter(|(w, h)| !ctx.flag("lite") || (*w <= 5 && *h <= 5) || (*w, *h) == (64, 48)).collect();
    let confusion: Mutex<std::collections::BTreeMap<(String, String), u64>> = Mutex::new(Default::default());
    let n_geo = AtomicU64::new(0);
    let n_wellformed = AtomicU64::new(0);
    let n_sample = AtomicU64::new(0);
    let sample_tbl = Mutex::new([0u64; 4]); // visible-rejected, visible-accepted, padding-rejected, padding-accepted
    let first_samples = Mutex::new(Vec::<J>::new());
    ev::par_ranges("C12", lumas.len() as u64, 1, |_w, a, _b| {
        let (w, h) = lumas[a as usize];
        let mut rng = Rng::new(ctx.seed, 0x0C12_0000 + a);
        let mut conf: std::collections::BTreeMap<(String, String), u64> = Default::default();
        let mut cnt = 0u64;
        let mut wf = 0u64;
        let mut st = [0u64; 4];
        let mut ns = 0u64;
        frames::for_luma(w, h, full && w <= 12, |_i, s| {
            if w > 12 {
                // larger lumas: a thin slice (chroma sizes within +-1 of the implied size, two paddings, two types)
                let c = (w >> s.ss.0, h >> s.ss.1);
                let near = |a: usize, b: usize| a + 1 >= b && a <= b + 1;
                if !(near(s.cu.0, c.0) && near(s.cu.1, c.1)) && s.du == (s.ss.0 as usize, s.ss.1 as usize) {
                    return;
                }
                if !(s.pad == frames::PADS[0] || s.pad == frames::PADS[7] || s.pad == frames::PADS[6] || s.pad == frames::PADS[2]) || !(s.depth == 8 && s.u8s || s.depth == 10) {
                    return;
                }
            }
            cnt += 1;
            if s.u8s {
                check_spec::<u8>(&s, &mut rng, &mut conf);
            } else {
                check_spec::<u16>(&s, &mut rng, &mut conf);
            }
            if s.model().well_formed() {
                wf += 1;
                if first_samples.lock().unwrap().len() < 4 {
                    first_samples.lock().unwrap().push(s.json());
                }
                // out-of-range sample sweep: u16 storage, every depth 8..15, on well-formed geometry
                let sweep = if full { true } else { s.pad == frames::PADS[0] || s.pad == frames::PADS[7] || s.pad == frames::PADS[3] || s.pad == frames::PADS[2] || s.pad == frames::PADS[6] };
                if !s.u8s && s.depth == 10 && sweep {
                    let depths: &[u8] = if full { &[8, 9, 10, 11, 12, 13, 14, 15] } else { &[8, 9, 12, 15] };
                    for &depth in depths {
                        let s2 = FrameSpec { depth, ..s };
                        for pl in 0..3 {
                            let probe: Frame<u16> = frames::build(&s2, &mut rng);
                            let len = probe.planes[pl].data.len();
                            let cfgp = &probe.planes[pl].cfg;
                            // all visible positions, plus padding positions: neighbours of the visible area, buffer ends, random
                            let mut pos: Vec<usize> = Vec::new();
                            if w <= 12 {
                                for y in 0..cfgp.height {
                                    for x in 0..cfgp.width {
                                        pos.push((cfgp.yorigin + y) * cfgp.stride + cfgp.xorigin + x);
                                    }
                                }
                            } else if cfgp.width > 0 && cfgp.height > 0 {
                                // larger planes (stride may equal the width): corners of the visible area, the last rows, random samples
                                let at = |x: usize, y: usize| (cfgp.yorigin + y) * cfgp.stride + cfgp.xorigin + x;
                                let (lw, lh) = (cfgp.width - 1, cfgp.height - 1);
                                pos.extend([at(0, 0), at(lw, 0), at(0, lh), at(lw, lh), at(lw / 2, lh), at(0, lh.saturating_sub(1)), at(lw, lh.saturating_sub(2))]);
                                for _ in 0..6 {
                                    pos.push(at(rng.below(cfgp.width as u64) as usize, rng.below(cfgp.height as u64) as usize));
                                }
                            }
                            if len > 0 {
                                pos.extend([0, len - 1]);
                                if cfgp.width > 0 && cfgp.height > 0 {
                                    let first = cfgp.yorigin * cfgp.stride + cfgp.xorigin;
                                    pos.push(first + cfgp.width); // just right of the first row
                                    pos.push(first.saturating_sub(1));
                                    pos.push(first + cfgp.height * cfgp.stride); // just below the last row
                                    pos.push((first + cfgp.height * cfgp.stride).saturating_sub(1));
                                }
                                for _ in 0..4 {
                                    pos.push(rng.below(len as u64) as usize);
                                }
                            }
                            // thin out: all positions only for the smallest depth loop iteration pair
                            let step = if depth == 9 || depth == 15 { 1 } else { 5 };
                            for (k, p) in pos.iter().enumerate() {
                                if k % step != 0 {
                                    continue;
                                }
                                if let Some((vis, rej)) = check_sample(&s2, pl, *p, &mut rng) {
                                    ns += 1;
                                    st[(if vis { 0 } else { 2 }) + (if rej { 0 } else { 1 })] += 1;
                                }
                            }
                        }
                    }
                }
            }
        });
        n_geo.fetch_add(cnt, Relaxed);
        n_wellformed.fetch_add(wf, Relaxed);
        n_sample.fetch_add(ns, Relaxed);
        let mut g = confusion.lock().unwrap();
        for (k, v) in conf {
            *g.entry(k).or_insert(0) += v;
        }
        let mut t = sample_tbl.lock().unwrap();
        for i in 0..4 {
            t[i] += st[i];
        }
    });
    let nf = float_ctor_checks(ctx);
    let g = confusion.lock().unwrap();
    let tbl: Vec<J> = g.iter().map(|((m, a), n)| J::obj().set("model", m.as_str()).set("actual", a.as_str()).set("frames", *n)).collect();
    ev::observe("confusion_model_vs_actual", J::Arr(tbl));
    let t = sample_tbl.lock().unwrap();
    ev::observe("out_of_range_sample_cases", J::obj().set("visible_rejected", t[0]).set("visible_accepted", t[1]).set("padding_rejected", t[2]).set("padding_accepted", t[3]));
    ev::observe("frame_geometries", n_geo.load(Relaxed));
    ev::observe("well_formed_geometries", n_wellformed.load(Relaxed));
    for s in first_samples.lock().unwrap().iter() {
        ev::sample(s.clone());
    }
    let total = n_geo.load(Relaxed) + n_sample.load(Relaxed) + nf;
    ev::add_evals(total);
    // every enumerated geometry / sample position / (len,w,h) is distinct by construction; non-trivial = all (each has a definite expected verdict)
    ev::add_nontrivial(total);
    ev::exhaustive(full);
    ev::rule(
        "frames built with Plane::new for luma w,h in 1..=12 (+6 larger sizes): config subsampling x plane decimation in {0,1,2}^2 (equal: chroma-U sizes from {0,1,c-1,c,c+1,luma,13} (thorough: 0..=13), \
         7 V-plane variants (same, one dimension +-1, decimation differing), 8 padding triples incl. U/V padded differently, u8/8 u16/8 u16/10 u16/16; unequal: chroma sized for either), each compared with the property's predicate; \
         for well-formed geometry one sample above 2^n-1 (n=8..15) at every visible position and at padding positions of every plane; Rgb/LinearRgb/Xyb/Hsl::new for all (len,w,h) in 0..=40 plus products that wrap usize. \
         Enumerated without repetition, so distinct by construction",
    );
}

pub fn replay(case: &J) -> bool {
    let kind = case.get("kind").and_then(J::as_str).unwrap_or("");
    if kind == "frame" {
        let Some(s) = FrameSpec::from_json(case) else { return false };
        let mut rng = Rng::new(1, 1);
        let mut conf = Default::default();
        ev::add_evals(1);
        if let (Some(pl), Some(pos)) = (case.get("bad_plane").and_then(J::as_u64), case.get("bad_pos").and_then(J::as_u64)) {
            let r = check_sample(&s, pl as usize, pos as usize, &mut rng);
            ev::observe("replay", J::obj().set("visible_rejected", r.map(|x| vec![x.0, x.1])));
            return true;
        }
        if s.u8s {
            check_spec::<u8>(&s, &mut rng, &mut conf);
        } else {
            check_spec::<u16>(&s, &mut rng, &mut conf);
        }
        ev::observe("replay", J::Arr(conf.iter().map(|((m, a), _)| J::obj().set("model", m.as_str()).set("actual", a.as_str())).collect()));
        return true;
    }
    if kind == "float-ctor" {
        let (Some(t), Some(len), Some(w), Some(h)) = (case.get("type").and_then(J::as_str), case.get("len").and_then(J::as_u64), case.get("w").and_then(J::as_u64), case.get("h").and_then(J::as_u64)) else { return false };
        let (len, w, h) = (len as usize, w as usize, h as usize);
        let data = vec![[0.25f32; 3]; len];
        let ok = ev::guarded(|| match t {
            "Rgb" => Rgb::new(data.clone(), w, h, TC::SRGB, CP::BT709).is_ok(),
            "LinearRgb" => LinearRgb::new(data.clone(), w, h).is_ok(),
            "Xyb" => Xyb::new(data.clone(), w, h).is_ok(),
            _ => Hsl::new(data.clone(), w, h).is_ok(),
        });
        ev::add_evals(1);
        let want = (w as u128) * (h as u128) == len as u128;
        ev::observe("replay", J::obj().set("result", format!("{ok:?}")).set("expected_ok", want));
        if ok != Ok(want) {
            ev::violation("C12|replay", format!("{ok:?} expected ok={want}"), case.clone());
        }
        return true;
    }
    false
}
