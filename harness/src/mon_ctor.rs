use crate::{json::J, Ctx};
pub fn c12(_ctx: &Ctx) {}
pub fn replay(_c: &J) -> bool { false }
