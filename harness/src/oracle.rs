//! f64 reference models, written from the standards, not from the repo code.
#![allow(dead_code)]
use yuvxyb::{ColorPrimaries as CP, MatrixCoefficients as MC, TransferCharacteristic as TC};

pub const MATRICES: [MC; 7] = [
    MC::BT709,
    MC::BT470M,
    MC::BT470BG,
    MC::ST170M,
    MC::ST240M,
    MC::BT2020NonConstantLuminance,
    MC::YCgCo,
];

pub const TRANSFERS: [TC; 14] = [
    TC::BT1886,
    TC::ST170M,
    TC::ST240M,
    TC::BT2020Ten,
    TC::BT2020Twelve,
    TC::BT470M,
    TC::BT470BG,
    TC::SRGB,
    TC::XVYCC,
    TC::Logarithmic100,
    TC::Logarithmic316,
    TC::PerceptualQuantizer,
    TC::HybridLogGamma,
    TC::Linear,
];

pub const PRIMARIES: [CP; 11] = [
    CP::BT709,
    CP::BT470M,
    CP::BT470BG,
    CP::ST170M,
    CP::ST240M,
    CP::Film,
    CP::BT2020,
    CP::ST428,
    CP::P3DCI,
    CP::P3Display,
    CP::Tech3213,
];

pub fn kr_kb(m: MC) -> Option<(f64, f64)> {
    Some(match m {
        MC::BT709 => (0.2126, 0.0722),
        MC::BT470M => (0.30, 0.11),
        MC::BT470BG | MC::ST170M => (0.299, 0.114),
        MC::ST240M => (0.212, 0.087),
        MC::BT2020NonConstantLuminance => (0.2627, 0.0593),
        _ => return None,
    })
}

/// normalise codes -> (y, cb, cr) per H.273 with clamping
pub fn normalise(code: [u32; 3], n: u32, full: bool) -> [f64; 3] {
    let k = (1u32 << (n - 8)) as f64;
    let maxv = ((1u64 << n) - 1) as f64;
    let half = (1u64 << (n - 1)) as f64;
    let (y, cb, cr) = if full {
        (
            code[0] as f64 / maxv,
            (code[1] as f64 - half) / maxv,
            (code[2] as f64 - half) / maxv,
        )
    } else {
        (
            (code[0] as f64 - 16.0 * k) / (219.0 * k),
            (code[1] as f64 - 128.0 * k) / (224.0 * k),
            (code[2] as f64 - 128.0 * k) / (224.0 * k),
        )
    };
    [y.clamp(0.0, 1.0), cb.clamp(-0.5, 0.5), cr.clamp(-0.5, 0.5)]
}

pub fn ypbpr_to_rgb(m: MC, v: [f64; 3]) -> [f64; 3] {
    let [y, cb, cr] = v;
    if m == MC::YCgCo {
        // Y, Cg, Co
        let (cg, co) = (cb, cr);
        return [y - cg + co, y + cg, y - cg - co];
    }
    let (kr, kb) = kr_kb(m).unwrap();
    let kg = 1.0 - kr - kb;
    let r = y + 2.0 * (1.0 - kr) * cr;
    let b = y + 2.0 * (1.0 - kb) * cb;
    let g = (y - kr * r - kb * b) / kg;
    [r, g, b]
}

pub fn rgb_to_ypbpr(m: MC, v: [f64; 3]) -> [f64; 3] {
    let [r, g, b] = v;
    if m == MC::YCgCo {
        return [
            0.25 * r + 0.5 * g + 0.25 * b,
            -0.25 * r + 0.5 * g - 0.25 * b,
            0.5 * r - 0.5 * b,
        ];
    }
    let (kr, kb) = kr_kb(m).unwrap();
    let kg = 1.0 - kr - kb;
    let y = kr * r + kg * g + kb * b;
    [y, (b - y) / (2.0 * (1.0 - kb)), (r - y) / (2.0 * (1.0 - kr))]
}

/// ideal (real-valued, unclamped) codes
pub fn quantise_ideal(v: [f64; 3], n: u32, full: bool) -> [f64; 3] {
    let k = (1u32 << (n - 8)) as f64;
    let maxv = ((1u64 << n) - 1) as f64;
    let half = (1u64 << (n - 1)) as f64;
    if full {
        [maxv * v[0], maxv * v[1] + half, maxv * v[2] + half]
    } else {
        [
            219.0 * k * v[0] + 16.0 * k,
            224.0 * k * v[1] + 128.0 * k,
            224.0 * k * v[2] + 128.0 * k,
        ]
    }
}

// ---------------- transfer curves ----------------
const PQ_M1: f64 = 2610.0 / 16384.0;
const PQ_M2: f64 = 2523.0 / 4096.0 * 128.0;
const PQ_C1: f64 = 3424.0 / 4096.0;
const PQ_C2: f64 = 2413.0 / 4096.0 * 32.0;
const PQ_C3: f64 = 2392.0 / 4096.0 * 32.0;
const HLG_A: f64 = 0.17883277;
const HLG_B: f64 = 0.28466892;
const HLG_C: f64 = 0.55991073;

#[derive(Clone, Copy)]
pub struct PqConst {
    pub scale: f64,
    pub alpha: f64,
    pub beta: f64,
}
pub const PQ_BT2100: PqConst = PqConst {
    scale: 59.5208,
    alpha: 1.099,
    beta: 0.018,
};
pub const PQ_PRECISE: PqConst = PqConst {
    scale: 59.49080238715383,
    alpha: 1.09929682680944,
    beta: 0.018053968510807,
};

fn g709(e: f64, k: PqConst) -> f64 {
    if e < k.beta {
        4.5 * e
    } else {
        k.alpha * e.powf(0.45) - (k.alpha - 1.0)
    }
}
fn g709_inv(v: f64, k: PqConst) -> f64 {
    if v < 4.5 * k.beta {
        v / 4.5
    } else {
        ((v + (k.alpha - 1.0)) / k.alpha).powf(1.0 / 0.45)
    }
}
fn pq_eotf(x: f64) -> f64 {
    if x <= 0.0 {
        return 0.0;
    }
    let xp = x.powf(1.0 / PQ_M2);
    let num = (xp - PQ_C1).max(0.0);
    let den = PQ_C2 - PQ_C3 * xp;
    (num / den).powf(1.0 / PQ_M1)
}
fn pq_inv_eotf(y: f64) -> f64 {
    if y <= 0.0 {
        return 0.0;
    }
    let yp = y.powf(PQ_M1);
    ((PQ_C1 + PQ_C2 * yp) / (1.0 + PQ_C3 * yp)).powf(PQ_M2)
}

pub fn to_linear(t: TC, x: f64, k: PqConst, srgb_precise: bool) -> f64 {
    match t {
        TC::BT1886 | TC::ST170M | TC::ST240M | TC::BT2020Ten | TC::BT2020Twelve | TC::XVYCC => {
            x.powf(2.4)
        }
        TC::BT470M => x.powf(2.2),
        TC::BT470BG => x.powf(2.8),
        TC::Linear => x,
        TC::Logarithmic100 => 10f64.powf(2.0 * (x - 1.0)),
        TC::Logarithmic316 => 10f64.powf(2.5 * (x - 1.0)),
        TC::SRGB => {
            let (a, b) = if srgb_precise {
                (1.055010718947587, 0.003041282560128)
            } else {
                (1.055, 0.0031308)
            };
            if x <= 12.92 * b {
                x / 12.92
            } else {
                ((x + (a - 1.0)) / a).powf(2.4)
            }
        }
        TC::PerceptualQuantizer => {
            let y = pq_eotf(x); // display light / 10000
            g709_inv((100.0 * y).powf(1.0 / 2.4), k) / k.scale
        }
        TC::HybridLogGamma => {
            if x <= 0.5 {
                x * x / 3.0
            } else {
                (((x - HLG_C) / HLG_A).exp() + HLG_B) / 12.0
            }
        }
        _ => f64::NAN,
    }
}

pub fn to_gamma(t: TC, x: f64, k: PqConst, srgb_precise: bool) -> f64 {
    match t {
        TC::BT1886 | TC::ST170M | TC::ST240M | TC::BT2020Ten | TC::BT2020Twelve | TC::XVYCC => {
            x.powf(1.0 / 2.4)
        }
        TC::BT470M => x.powf(1.0 / 2.2),
        TC::BT470BG => x.powf(1.0 / 2.8),
        TC::Linear => x,
        TC::Logarithmic100 => {
            if x < 0.01 {
                0.0
            } else {
                1.0 + x.log10() / 2.0
            }
        }
        TC::Logarithmic316 => {
            if x < 10f64.sqrt() / 1000.0 {
                0.0
            } else {
                1.0 + x.log10() / 2.5
            }
        }
        TC::SRGB => {
            let (a, b) = if srgb_precise {
                (1.055010718947587, 0.003041282560128)
            } else {
                (1.055, 0.0031308)
            };
            if x <= b {
                12.92 * x
            } else {
                a * x.powf(1.0 / 2.4) - (a - 1.0)
            }
        }
        TC::PerceptualQuantizer => {
            let y = g709(k.scale * x, k).powf(2.4) / 100.0;
            pq_inv_eotf(y)
        }
        TC::HybridLogGamma => {
            if x <= 1.0 / 12.0 {
                (3.0 * x).sqrt()
            } else {
                HLG_A * (12.0 * x - HLG_B).ln() + HLG_C
            }
        }
        _ => f64::NAN,
    }
}

// ---------------- XYB ----------------
pub const OPSIN: [[f64; 3]; 3] = [
    [0.30, 0.622, 0.078],
    [0.23, 0.692, 0.078],
    [
        0.24342268924547819,
        0.20476744424496821,
        0.55180986650955360,
    ],
];
pub const OPSIN_BIAS: f64 = 0.0037930732552754493;

pub fn opsin_mix(p: [f64; 3]) -> [f64; 3] {
    let mut m = [0.0; 3];
    for i in 0..3 {
        m[i] = OPSIN[i][0] * p[0] + OPSIN[i][1] * p[1] + OPSIN[i][2] * p[2] + OPSIN_BIAS;
    }
    m
}
pub fn lrgb_to_xyb(p: [f64; 3]) -> [f64; 3] {
    let m = opsin_mix(p);
    let cb = OPSIN_BIAS.cbrt();
    let l = m[0].max(0.0).cbrt() - cb;
    let mm = m[1].max(0.0).cbrt() - cb;
    let s = m[2].max(0.0).cbrt() - cb;
    [(l - mm) / 2.0, (l + mm) / 2.0, s]
}

// ---------------- primaries ----------------
type M3 = [[f64; 3]; 3];
pub fn mat_mul(a: M3, b: M3) -> M3 {
    let mut r = [[0.0; 3]; 3];
    for i in 0..3 {
        for j in 0..3 {
            for k in 0..3 {
                r[i][j] += a[i][k] * b[k][j];
            }
        }
    }
    r
}
pub fn mat_vec(a: M3, v: [f64; 3]) -> [f64; 3] {
    let mut r = [0.0; 3];
    for i in 0..3 {
        for k in 0..3 {
            r[i] += a[i][k] * v[k];
        }
    }
    r
}
pub fn mat_inv(m: M3) -> M3 {
    // Gauss-Jordan with partial pivoting (independent of the repo's Cramer code)
    let mut a = [[0.0f64; 6]; 3];
    for i in 0..3 {
        for j in 0..3 {
            a[i][j] = m[i][j];
        }
        a[i][3 + i] = 1.0;
    }
    for c in 0..3 {
        let mut p = c;
        for r in c + 1..3 {
            if a[r][c].abs() > a[p][c].abs() {
                p = r;
            }
        }
        a.swap(c, p);
        let d = a[c][c];
        for j in 0..6 {
            a[c][j] /= d;
        }
        for r in 0..3 {
            if r != c {
                let f = a[r][c];
                for j in 0..6 {
                    a[r][j] -= f * a[c][j];
                }
            }
        }
    }
    let mut r = [[0.0; 3]; 3];
    for i in 0..3 {
        for j in 0..3 {
            r[i][j] = a[i][3 + j];
        }
    }
    r
}
pub const IDENT: M3 = [[1.0, 0.0, 0.0], [0.0, 1.0, 0.0], [0.0, 0.0, 1.0]];

pub fn primaries_xy(p: CP) -> Option<[[f64; 2]; 3]> {
    Some(match p {
        CP::BT709 => [[0.640, 0.330], [0.300, 0.600], [0.150, 0.060]],
        CP::BT470M => [[0.67, 0.33], [0.21, 0.71], [0.14, 0.08]],
        CP::BT470BG => [[0.64, 0.33], [0.29, 0.60], [0.15, 0.06]],
        CP::ST170M | CP::ST240M => [[0.630, 0.340], [0.310, 0.595], [0.155, 0.070]],
        CP::Film => [[0.681, 0.319], [0.243, 0.692], [0.145, 0.049]],
        CP::BT2020 => [[0.708, 0.292], [0.170, 0.797], [0.131, 0.046]],
        CP::P3DCI | CP::P3Display => [[0.680, 0.320], [0.265, 0.690], [0.150, 0.060]],
        CP::Tech3213 => [[0.630, 0.340], [0.295, 0.605], [0.155, 0.077]],
        _ => return None,
    })
}
pub fn white_xy(p: CP) -> [f64; 2] {
    match p {
        CP::BT470M | CP::Film => [0.310, 0.316],
        CP::ST428 => [1.0 / 3.0, 1.0 / 3.0],
        CP::P3DCI => [0.314, 0.351],
        _ => [0.3127, 0.3290],
    }
}
fn xy_to_xyz(v: [f64; 2]) -> [f64; 3] {
    [v[0] / v[1], 1.0, (1.0 - v[0] - v[1]) / v[1]]
}
pub fn rgb_to_xyz(p: CP) -> M3 {
    if p == CP::ST428 {
        return IDENT;
    }
    let xy = primaries_xy(p).unwrap();
    let c: Vec<[f64; 3]> = xy.iter().map(|v| xy_to_xyz(*v)).collect();
    // columns = primaries
    let pm: M3 = [
        [c[0][0], c[1][0], c[2][0]],
        [c[0][1], c[1][1], c[2][1]],
        [c[0][2], c[1][2], c[2][2]],
    ];
    let w = xy_to_xyz(white_xy(p));
    let s = mat_vec(mat_inv(pm), w);
    let mut r = pm;
    for i in 0..3 {
        for j in 0..3 {
            r[i][j] = pm[i][j] * s[j];
        }
    }
    r
}
pub fn bradford(from: CP, to: CP) -> M3 {
    let b: M3 = [
        [0.8951, 0.2664, -0.1614],
        [-0.7502, 1.7135, 0.0367],
        [0.0389, -0.0685, 1.0296],
    ];
    let wi = xy_to_xyz(white_xy(from));
    let wo = xy_to_xyz(white_xy(to));
    if wi == wo {
        return IDENT;
    }
    let ri = mat_vec(b, wi);
    let ro = mat_vec(b, wo);
    let d: M3 = [
        [ro[0] / ri[0], 0.0, 0.0],
        [0.0, ro[1] / ri[1], 0.0],
        [0.0, 0.0, ro[2] / ri[2]],
    ];
    mat_mul(mat_inv(b), mat_mul(d, b))
}
pub fn primaries_matrix(from: CP, to: CP) -> M3 {
    if from == to {
        return IDENT;
    }
    mat_mul(
        mat_inv(rgb_to_xyz(to)),
        mat_mul(bradford(from, to), rgb_to_xyz(from)),
    )
}

// ---------------- HSL ----------------
pub fn lrgb_to_hsl(p: [f64; 3]) -> [f64; 3] {
    let mx = p[0].max(p[1]).max(p[2]);
    let mn = p[0].min(p[1]).min(p[2]);
    let c = mx - mn;
    let l = (mx + mn) / 2.0;
    let h = if c == 0.0 {
        0.0
    } else if mx == p[0] {
        60.0 * (((p[1] - p[2]) / c).rem_euclid(6.0))
    } else if mx == p[1] {
        60.0 * ((p[2] - p[0]) / c + 2.0)
    } else {
        60.0 * ((p[0] - p[1]) / c + 4.0)
    };
    let s = if l == 0.0 || l == 1.0 {
        0.0
    } else {
        c / (1.0 - (2.0 * l - 1.0).abs())
    };
    [h, s, l]
}
