//! C18: fast math helpers meet their accuracy contracts and are total.
use crate::ev::{self, ChildSel, Worst};
use crate::gen::{Rng, SPECIALS};
use crate::json::J;
use crate::util::ulp_diff;
use crate::{Ctx, Tier};
use std::sync::atomic::{AtomicU64, Ordering::Relaxed};
use std::sync::Mutex;
use yuvxyb_math::{cbrtf, expf, powf};

pub const LIB_EXPONENTS: [f32; 17] = [
    2.4,
    1.0 / 2.4,
    2.2,
    1.0 / 2.2,
    2.8,
    1.0 / 2.8,
    0.45,
    1.0 / 0.45,
    0.159_301_76,
    78.84375,
    1.0 / 78.84375,
    1.0 / 0.159_301_76,
    -80.0,
    80.0,
    -1.0,
    0.0,
    3.0,
];

pub const POW_BASES: [f32; 18] = [1.1754944e-38, 2.3509887e-38, 0.5, 0.25, 2.0, 4.0, 1.7014118e38, 1.0, -1.0, -2.0, -0.5, -1.1754944e-38, -3.0, 3.0, 0.0, -0.0, 1e-40, 8.0];
pub const POW_EXPONENTS: [f32; 26] = [
    2147483648.0,
    -2147483648.0,
    2147483520.0,
    -2147483520.0,
    4294967296.0,
    -4294967296.0,
    16777216.0,
    -16777216.0,
    16777215.0,
    3e7,
    -3e7,
    1e9,
    -1e9,
    16.0,
    -16.0,
    17.0,
    -17.0,
    15.0,
    2.0,
    -2.0,
    3.0,
    1.0,
    -1.0,
    65536.0,
    -65537.0,
    1e30,
];

fn powf_budget(y: f32) -> f64 {
    2.5e-4 + 8e-6 * (y.abs() as f64)
}

enum Bits {
    All,
    Strided { stride: u64, phase: u64, extra: Vec<u32> },
}
impl Bits {
    fn total(&self) -> u64 {
        match self {
            Bits::All => 1u64 << 32,
            Bits::Strided { stride, phase, extra } => ((1u64 << 32) - phase + stride - 1) / stride + extra.len() as u64,
        }
    }
    #[inline]
    fn get(&self, i: u64) -> u32 {
        match self {
            Bits::All => i as u32,
            Bits::Strided { stride, phase, extra } => {
                let n = ((1u64 << 32) - phase + stride - 1) / stride;
                if i < n {
                    (phase + i * stride) as u32
                } else {
                    extra[(i - n) as usize]
                }
            }
        }
    }
}

fn boundary_bits() -> Vec<u32> {
    let mut v = Vec::new();
    // +-64 ulp around every power of two, both signs, plus subnormal/normal and inf/NaN borders
    for e in 0..=255u32 {
        let c = (e << 23) as i64;
        for d in -64..=64i64 {
            let x = c + d;
            if (0..=0x7FFF_FFFF).contains(&x) {
                v.push(x as u32);
                v.push(x as u32 | 0x8000_0000);
            }
        }
    }
    // expf thresholds
    for t in [85.0f32, 88.0, 88.72284, 89.0, -85.0, -88.0, -87.33655, -103.0, 1e38, -1e38, 0.0] {
        let c = t.to_bits() as i64;
        for d in -256..=256i64 {
            let x = c + d;
            if x >= 0 && x <= u32::MAX as i64 {
                v.push(x as u32);
            }
        }
    }
    v.sort_unstable();
    v.dedup();
    v
}

pub fn c18(ctx: &Ctx) {
    if ctx.arg("part") == Some("miri") {
        return miri_part(ctx);
    }
    let lite = ctx.flag("lite");
    let bits = if ctx.tier == Tier::Thorough && !lite {
        Bits::All
    } else {
        let stride = ctx.arg_u64("stride").unwrap_or(if lite { 4099 } else { 127 });
        Bits::Strided { stride, phase: crate::gen::hash64(ctx.seed ^ 0x18) % stride, extra: boundary_bits() }
    };
    let total = bits.total();

    // ---------------- cbrtf
    let wc = Mutex::new(Worst::<(f32, f32, f64)>::new());
    let odd_bad = AtomicU64::new(0);
    let first_odd = Mutex::new(None::<f32>);
    let normal_n = AtomicU64::new(0);
    ev::par_ranges("C18", total, 1 << 20, |_w, a, b| {
        let mut loc = Worst::new();
        let (mut odd, mut nn) = (0u64, 0u64);
        for i in a..b {
            let x = f32::from_bits(bits.get(i));
            let got = cbrtf(x);
            if !x.is_normal() {
                continue; // totality only: reaching here without a panic is the observation
            }
            nn += 1;
            let want = (x as f64).cbrt();
            loc.upd(ulp_diff(got, want), (x, got, want));
            if cbrtf(-x).to_bits() != (-got).to_bits() {
                odd += 1;
                let mut f = first_odd.lock().unwrap();
                if f.is_none() {
                    *f = Some(x);
                }
            }
        }
        normal_n.fetch_add(nn, Relaxed);
        odd_bad.fetch_add(odd, Relaxed);
        wc.lock().unwrap().merge(&loc);
    });
    {
        let w = wc.lock().unwrap();
        ev::observe("cbrtf_max_ulp_err", w.err);
        ev::observe("cbrtf_normal_arguments", normal_n.load(Relaxed));
        ev::observe("cbrtf_oddness_violations", odd_bad.load(Relaxed));
        if let Some((x, got, want)) = w.at {
            let j = J::obj().set("kind", "cbrtf").set("x", x).set("x_bits", x.to_bits()).set("got", got).set("want", want).set("ulp_err", w.err);
            ev::observe("cbrtf_argmax", j.clone());
            ev::sample(j.clone());
            if !(w.err <= 1.0) {
                ev::violation("C18|cbrtf|accuracy", format!("cbrtf({x:e}) = {got:e}, true {want:e}: {:.3} ulp > 1", w.err), j);
            }
        }
        if let Some(x) = *first_odd.lock().unwrap() {
            ev::violation("C18|cbrtf|odd", format!("cbrtf(-x) != -cbrtf(x) bitwise for {} arguments, e.g. x={x:e}", odd_bad.load(Relaxed)), J::obj().set("kind", "cbrtf").set("x_bits", x.to_bits()));
        }
    }

    // ---------------- expf
    let we = Mutex::new(Worst::<(f32, f32, f64)>::new());
    let bad_inf = Mutex::new((0u64, None::<(f32, f32)>));
    let bad_zero = Mutex::new((0u64, None::<(f32, f32)>));
    let counts = [AtomicU64::new(0), AtomicU64::new(0), AtomicU64::new(0)];
    ev::par_ranges("C18", total, 1 << 20, |_w, a, b| {
        let mut loc = Worst::new();
        let mut c = [0u64; 3];
        for i in a..b {
            let x = f32::from_bits(bits.get(i));
            let got = expf(x);
            if x.is_nan() || x.is_infinite() {
                continue;
            }
            if (-85.0..=85.0).contains(&x) {
                let want = (x as f64).exp();
                let e = ((got as f64) - want).abs() / want;
                loc.upd(e, (x, got, want));
                c[0] += 1;
            } else if (89.0..=1e38).contains(&x) {
                c[1] += 1;
                if got != f32::INFINITY {
                    let mut g = bad_inf.lock().unwrap();
                    g.0 += 1;
                    if g.1.is_none() {
                        g.1 = Some((x, got));
                    }
                }
            } else if (-1e38..=-88.0).contains(&x) {
                c[2] += 1;
                // exact-math build (C20): libm returns the correctly rounded subnormal e^x for -103.97 < x <= -88,
                // which is "0 to within the smallest normal"; the fast path must return exactly 0
                let ok = got == 0.0 || (crate::mon_transfer::exact_build() && got > 0.0 && got < f32::MIN_POSITIVE);
                if !ok {
                    let mut g = bad_zero.lock().unwrap();
                    g.0 += 1;
                    if g.1.is_none() {
                        g.1 = Some((x, got));
                    }
                }
            }
        }
        for k in 0..3 {
            counts[k].fetch_add(c[k], Relaxed);
        }
        we.lock().unwrap().merge(&loc);
    });
    {
        let w = we.lock().unwrap();
        ev::observe("expf_max_rel_err_on_[-85,85]", w.err);
        ev::observe("expf_arguments_in_[-85,85]", counts[0].load(Relaxed));
        ev::observe("expf_arguments_in_[89,1e38]", counts[1].load(Relaxed));
        ev::observe("expf_arguments_in_[-1e38,-88]", counts[2].load(Relaxed));
        if let Some((x, got, want)) = w.at {
            let j = J::obj().set("kind", "expf").set("x", x).set("x_bits", x.to_bits()).set("got", got).set("want", want).set("rel_err", w.err);
            ev::observe("expf_argmax", j.clone());
            ev::sample(j.clone());
            if !(w.err <= 1e-5) {
                ev::violation("C18|expf|accuracy", format!("expf({x:e}) = {got:e}, true {want:e}: rel err {:.3e} > 1e-5", w.err), j);
            }
        }
        let g = bad_inf.lock().unwrap();
        if let Some((x, got)) = g.1 {
            ev::violation("C18|expf|overflow-not-inf", format!("expf({x:e}) = {got:e}, expected +inf ({} arguments)", g.0), J::obj().set("kind", "expf").set("x_bits", x.to_bits()));
        }
        let g = bad_zero.lock().unwrap();
        if let Some((x, got)) = g.1 {
            ev::violation("C18|expf|underflow-not-zero", format!("expf({x:e}) = {got:e}, expected 0 ({} arguments)", g.0), J::obj().set("kind", "expf").set("x_bits", x.to_bits()));
        }
    }

    // ---------------- powf: every positive normal x (or the strided subset) for the exponents the library uses
    let nx = 0x7F80_0000u64 - 0x0080_0000;
    let xstep: u64 = match &bits {
        Bits::All => 1,
        Bits::Strided { stride, .. } => *stride,
    };
    let mut per_y = Vec::new();
    let mut pow_n = 0u64;
    // the exponents the library uses, then the exponents that invite a special case (roots, reciprocals, small integers)
    const COMMON_EXPONENTS: [f32; 16] = [0.5, 1.0 / 3.0, 1.5, 2.0 / 3.0, 2.0, -0.5, -2.0, 0.25, 4.0, -1.5, 1.2, 0.1, 10.0, -0.25, 5.0, -1.0 / 3.0];
    for y in LIB_EXPONENTS.iter().copied().chain(COMMON_EXPONENTS) {
        let res = Mutex::new((Worst::<(f32, f32, f64)>::new(), 0u64));
        let phase = crate::gen::hash64(ctx.seed ^ y.to_bits() as u64) % xstep;
        ev::par_ranges("C18", nx, 1 << 22, |_w, a, b| {
            let mut loc = Worst::new();
            let mut n = 0u64;
            let mut i = a + (xstep - (a % xstep) + phase) % xstep;
            while i < b {
                let x = f32::from_bits(i as u32 + 0x0080_0000);
                let want = (x as f64).powf(y as f64);
                if (1e-35..=1e35).contains(&want) {
                    n += 1;
                    let got = powf(x, y);
                    loc.upd(((got as f64) - want).abs() / want, (x, got, want));
                }
                i += xstep;
            }
            let mut r = res.lock().unwrap();
            r.0.merge(&loc);
            r.1 += n;
        });
        let r = res.lock().unwrap();
        pow_n += r.1;
        let budget = powf_budget(y);
        let mut row = J::obj().set("y", y).set("arguments", r.1).set("max_rel_err", r.0.err).set("budget", budget);
        if let Some((x, got, want)) = r.0.at {
            row.put("argmax", J::obj().set("x", x).set("got", got).set("want", want));
            if !(r.0.err <= budget) {
                ev::violation(
                    format!("C18|powf|accuracy|y={y}"),
                    format!("powf({x:e}, {y}) = {got:e}, true {want:e}: rel err {:.3e} > {budget:.3e}", r.0.err),
                    J::obj().set("kind", "powf").set("x_bits", x.to_bits()).set("y_bits", y.to_bits()),
                );
            }
        }
        per_y.push(row);
    }
    ev::observe("powf_library_exponents", J::Arr(per_y));

    // ---------------- powf: random (x, y)
    let nrand: u64 = ctx.arg_u64("pairs").unwrap_or(if lite { 1 << 20 } else { ctx.pick(1 << 24, 1 << 30) });
    let res = Mutex::new((0.0f64, None::<(f32, f32, f32, f64)>, 0u64));
    ev::par_ranges("C18", nrand, 1 << 18, |_w, a, b| {
        let mut rng = Rng::new(ctx.seed, 0x0C18_0000 + (a >> 18));
        let mut worst_ratio = 0.0f64;
        let mut at = None;
        let mut n = 0u64;
        for i in a..b {
            let x = f32::from_bits(rng.below(nx) as u32 + 0x0080_0000);
            let y = match i % 4 {
                0 => rng.range(-80.0, 80.0) as f32,
                1 => rng.range(-4.0, 4.0) as f32,
                2 => f32::from_bits(rng.below(0x42A0_0001) as u32) * if rng.coin() { 1.0 } else { -1.0 },
                _ => rng.pick(&LIB_EXPONENTS),
            };
            let want = (x as f64).powf(y as f64);
            if !(1e-35..=1e35).contains(&want) {
                continue;
            }
            n += 1;
            let got = powf(x, y);
            let rel = ((got as f64) - want).abs() / want;
            let ratio = rel / powf_budget(y);
            if ratio > worst_ratio || ratio.is_nan() {
                worst_ratio = ratio;
                at = Some((x, y, got, want));
            }
        }
        let mut r = res.lock().unwrap();
        if worst_ratio > r.0 || worst_ratio.is_nan() {
            r.0 = worst_ratio;
            r.1 = at;
        }
        r.2 += n;
    });
    {
        let r = res.lock().unwrap();
        pow_n += r.2;
        ev::observe("powf_random_pairs_in_domain", r.2);
        ev::observe("powf_random_worst_err_over_budget", r.0);
        if let Some((x, y, got, want)) = r.1 {
            let j = J::obj().set("kind", "powf").set("x", x).set("y", y).set("x_bits", x.to_bits()).set("y_bits", y.to_bits()).set("got", got).set("want", want);
            ev::observe("powf_random_argmax", j.clone());
            ev::sample(j.clone());
            if !(r.0 <= 1.0) {
                ev::violation("C18|powf|accuracy|random", format!("powf({x:e}, {y:e}) = {got:e}, true {want:e}: {:.3} x budget", r.0), j);
            }
        }
    }

    // ---------------- totality on hostile arguments (hook in Trap mode turns would-be UB into a panic)
    let mut tot_calls = 0u64;
    let mut nonpanic = 0u64;
    let mut rng = Rng::new(ctx.seed, 0x0C18_7777);
    let mut args: Vec<f32> = SPECIALS.to_vec();
    args.extend(crate::gen::nan_payloads());
    let nbits: usize = ctx.pick(1 << 16, 1 << 20);
    for _ in 0..nbits {
        args.push(f32::from_bits(rng.next() as u32));
    }
    for (i, &x) in args.iter().enumerate() {
        for f in 0..3 {
            tot_calls += 1;
            let r = ev::guarded(|| match f {
                0 => cbrtf(x),
                1 => expf(x),
                _ => {
                    let y = if i < 64 { SPECIALS[i % SPECIALS.len()] } else { f32::from_bits(crate::gen::hash64(i as u64) as u32) };
                    powf(x, y)
                }
            });
            match r {
                Ok(_) => nonpanic += 1,
                Err(msg) => {
                    let name = ["cbrtf", "expf", "powf"][f];
                    ev::violation(format!("C18|totality|{name}|{}", ev::panic_site(&msg)), format!("{name}({x:e}, ..) panicked: {msg}"), J::obj().set("kind", "totality").set("fn", name).set("x_bits", x.to_bits()).set("index", i));
                }
            }
        }
    }
    // exponents that are integers of every size (up to +-2^31 and beyond) against bases that are powers of two, negative, tiny, huge
    for &x in POW_BASES.iter() {
        for &y in POW_EXPONENTS.iter() {
            tot_calls += 1;
            match ev::guarded(|| powf(x, y)) {
                Ok(_) => nonpanic += 1,
                Err(msg) => ev::violation(
                    format!("C18|totality|powf|{}", ev::panic_site(&msg)),
                    format!("powf({x:e}, {y:e}) panicked: {msg}"),
                    J::obj().set("kind", "totality").set("fn", "powf").set("x_bits", x.to_bits()).set("y_bits", y.to_bits()),
                ),
            }
        }
    }
    // powf over the full special x special grid
    for &x in SPECIALS.iter().chain(crate::gen::nan_payloads().iter()) {
        for &y in SPECIALS.iter().chain(crate::gen::nan_payloads().iter()) {
            tot_calls += 1;
            match ev::guarded(|| powf(x, y)) {
                Ok(_) => nonpanic += 1,
                Err(msg) => ev::violation(
                    format!("C18|totality|powf|{}", ev::panic_site(&msg)),
                    format!("powf({x:e}, {y:e}) panicked: {msg}"),
                    J::obj().set("kind", "totality").set("fn", "powf").set("x_bits", x.to_bits()).set("y_bits", y.to_bits()),
                ),
            }
        }
    }
    // purity: the same arguments evaluated in another order give bit-identical results
    if let Err(msg) = ev::guarded(|| {
        let mut rng2 = Rng::new(ctx.seed, 0x0C18_9999);
        let xs: Vec<(f32, f32)> = (0..20_000).map(|i| (if i % 2 == 0 { rng2.unit() as f32 } else { f32::from_bits(rng2.below(0x7F00_0000) as u32 + 0x0080_0000) }, rng2.pick(&LIB_EXPONENTS))).collect();
        let fwd: Vec<[u32; 3]> = xs.iter().map(|(x, y)| [powf(*x, *y).to_bits(), expf(*x).to_bits(), cbrtf(*x).to_bits()]).collect();
        let mut rev: Vec<[u32; 3]> = xs.iter().rev().map(|(x, y)| [cbrtf(*x).to_bits(), expf(*x).to_bits(), powf(*x, *y).to_bits()]).map(|a| [a[2], a[1], a[0]]).collect();
        rev.reverse();
        // and with every call repeated immediately
        let twice: Vec<[u32; 3]> = xs.iter().map(|(x, y)| { let _ = (powf(*x, *y), expf(*x), cbrtf(*x)); [powf(*x, *y).to_bits(), expf(*x).to_bits(), cbrtf(*x).to_bits()] }).collect();
        if let Some(i) = (0..xs.len()).find(|&i| fwd[i] != rev[i] || fwd[i] != twice[i]) {
            ev::violation("C18|order-dependent", format!("powf/expf/cbrtf({:e}, {:e}) returns different bits depending on the calls made before it", xs[i].0, xs[i].1), J::obj().set("kind", "order").set("x_bits", xs[i].0.to_bits()).set("y_bits", xs[i].1.to_bits()));
        }
    }) {
        ev::violation(format!("C18|totality|order-pass|{}", ev::panic_site(&msg)), format!("a helper panicked on a finite argument during the call-order pass: {msg}"), J::obj().set("kind", "order"));
    }
    tot_calls += 3 * 60_000;
    ev::observe("totality_calls", tot_calls);
    ev::observe("totality_calls_returned", nonpanic);

    let evals = total * 2 + pow_n + tot_calls;
    ev::add_evals(evals);
    ev::add_nontrivial(normal_n.load(Relaxed) + counts.iter().map(|c| c.load(Relaxed)).sum::<u64>() + pow_n);
    let exh = matches!(bits, Bits::All);
    ev::exhaustive(exh);
    ev::rule(if exh {
        "cbrtf and expf over all 2^32 f32 bit patterns; powf over every positive normal x for each of 17 exponents (the 12 the library uses, +-80, +-1, 0, 3) and over seeded random (x,y) pairs; \
         hostile-argument table (specials, NaN payloads, random bit patterns, special x special grid for powf) for totality with the to_int_unchecked hook in Trap mode. \
         distinct by enumeration; non-trivial = argument inside the contract's domain"
    } else {
        "cbrtf and expf over every stride-th f32 bit pattern (seed-dependent phase) plus +-64 ulp around every power of two and +-256 ulp around the expf thresholds; powf over the same stride of positive normal x \
         for each of 17 exponents and over seeded random (x,y) pairs; hostile-argument table for totality with the to_int_unchecked hook in Trap mode. distinct by construction (strided enumeration, de-duplicated extras); \
         non-trivial = argument inside the contract's domain"
    });
}

/// Miri: the hostile-argument table, one CASE per argument (hooks in Record mode: Miri is the judge).
fn miri_part(ctx: &Ctx) {
    let sel = ChildSel::from_ctx(ctx);
    let mut args: Vec<(f32, f32)> = Vec::new();
    let sp: Vec<f32> = SPECIALS.iter().copied().chain(crate::gen::nan_payloads()).collect();
    for &x in &sp {
        args.push((x, 2.4));
    }
    for &x in &sp {
        for &y in &[f32::NAN, f32::INFINITY, f32::NEG_INFINITY, 0.0, -0.0, 80.0, -80.0, 1e30, 0.45, 78.84375] {
            args.push((x, y));
        }
    }
    for &x in POW_BASES.iter() {
        for &y in POW_EXPONENTS.iter() {
            args.push((x, y));
        }
    }
    let mut rng = Rng::new(ctx.seed, 0x0C18_3333);
    let nrand = ctx.pick(400, 3000);
    for _ in 0..nrand {
        args.push((f32::from_bits(rng.next() as u32), f32::from_bits(rng.next() as u32)));
    }
    let mut n = 0u64;
    for (i, (x, y)) in args.iter().enumerate() {
        if !sel.wants(i as u64) {
            continue;
        }
        sel.announce(i as u64, &format!("x={:#010x} y={:#010x}", x.to_bits(), y.to_bits()));
        let a = cbrtf(*x);
        let b = expf(*x);
        let c = powf(*x, *y);
        let d = expf(*y);
        std::hint::black_box((a, b, c, d));
        n += 4;
    }
    ev::add_evals(n);
    ev::add_nontrivial(n);
    ev::observe("miri_calls", n);
    ev::rule("Miri: cbrtf/expf/powf on the hostile-argument table (specials x special exponents, NaN payloads, random bit patterns)");
}

pub fn replay(case: &J) -> bool {
    let kind = case.get("kind").and_then(J::as_str).unwrap_or("");
    let xb = case.get("x_bits").and_then(J::as_u64).map(|v| f32::from_bits(v as u32));
    let yb = case.get("y_bits").and_then(J::as_u64).map(|v| f32::from_bits(v as u32));
    let Some(x) = xb else { return false };
    ev::add_evals(1);
    match kind {
        "cbrtf" => {
            let got = cbrtf(x);
            let want = (x as f64).cbrt();
            let u = ulp_diff(got, want);
            let odd = cbrtf(-x).to_bits() == (-got).to_bits();
            ev::observe("replay", J::obj().set("got", got).set("want", want).set("ulp", u).set("odd_ok", odd));
            if x.is_normal() && (!(u <= 1.0) || !odd) {
                ev::violation("C18|replay", format!("{u} ulp odd_ok={odd}"), case.clone());
            }
            true
        }
        "expf" => {
            let got = expf(x);
            let want = (x as f64).exp();
            ev::observe("replay", J::obj().set("got", got).set("want", want));
            let bad = if (-85.0..=85.0).contains(&x) {
                !(((got as f64) - want).abs() / want <= 1e-5)
            } else if (89.0..=1e38).contains(&x) {
                got != f32::INFINITY
            } else if (-1e38..=-88.0).contains(&x) {
                !(got == 0.0 || (crate::mon_transfer::exact_build() && got > 0.0 && got < f32::MIN_POSITIVE))
            } else {
                false
            };
            if bad {
                ev::violation("C18|replay", format!("expf({x:e}) = {got:e}"), case.clone());
            }
            true
        }
        "powf" => {
            let Some(y) = yb else { return false };
            let got = powf(x, y);
            let want = (x as f64).powf(y as f64);
            let rel = ((got as f64) - want).abs() / want;
            ev::observe("replay", J::obj().set("got", got).set("want", want).set("rel", rel).set("budget", powf_budget(y)));
            if (1e-35..=1e35).contains(&want) && x.is_normal() && x > 0.0 && y.abs() <= 80.0 && !(rel <= powf_budget(y)) {
                ev::violation("C18|replay", format!("rel {rel:e}"), case.clone());
            }
            true
        }
        "totality" => {
            let f = case.get("fn").and_then(J::as_str).unwrap_or("");
            let r = ev::guarded(|| match f {
                "cbrtf" => cbrtf(x),
                "expf" => expf(x),
                _ => powf(x, yb.unwrap_or(2.4)),
            });
            ev::observe("replay", J::obj().set("result", match &r { Ok(v) => format!("{v:e}"), Err(m) => m.clone() }));
            if let Err(m) = r {
                ev::violation("C18|replay", m, case.clone());
            }
            true
        }
        _ => false,
    }
}
