//! C06 (primaries conversion vs CIE derivation) and C19 (3x3 matrix algebra).
use crate::ev::{self, Distinct, Worst};
use crate::gen::{hash_mix, hash_px, Rng};
use crate::json::J;
use crate::oracle::*;
use crate::util::*;
use crate::Ctx;
use std::sync::atomic::{AtomicU64, Ordering::Relaxed};
use std::sync::Mutex;
use yuvxyb::*;

fn conv(v: Vec<[f32; 3]>, w: usize, h: usize, p: CP, dir: usize) -> Result<Vec<[f32; 3]>, String> {
    if dir == 0 {
        // P -> BT.709 working space
        let r = Rgb::new(v, w, h, TC::Linear, p).map_err(|e| format!("{e:?}"))?;
        let l = LinearRgb::try_from(r).map_err(|e| format!("{e:?}"))?;
        if l.width() != w || l.height() != h {
            return Err(format!("dims changed to {}x{}", l.width(), l.height()));
        }
        Ok(l.into_data())
    } else {
        let l = LinearRgb::new(v, w, h).map_err(|e| format!("{e:?}"))?;
        let r = Rgb::try_from((l, TC::Linear, p)).map_err(|e| format!("{e:?}"))?;
        if r.width() != w || r.height() != h || r.primaries() != p || r.transfer() != TC::Linear {
            return Err(format!("dims/labels changed: {}x{} {:?} {:?}", r.width(), r.height(), r.transfer(), r.primaries()));
        }
        Ok(r.into_data())
    }
}

fn c06_px(rng: &mut Rng, i: u64) -> [f32; 3] {
    match i % 6 {
        0 => {
            // 5^3 grid over [-0.5,2]
            let k = rng.below(125);
            let g = |j: u64| -0.5 + 2.5 * (j as f32) / 4.0;
            [g(k % 5), g((k / 5) % 5), g(k / 25)]
        }
        1 => {
            let mut p = [0f32; 3];
            p[rng.below(3) as usize] = rng.range(-0.5, 2.0) as f32;
            p
        }
        2 => match rng.below(3) {
            0 => {
                let g = rng.range(0.0, 1.0) as f32;
                [g, g, g]
            }
            1 => {
                // faintly tinted near-neutral pixels
                let g = rng.range(0.0, 2.0);
                let s = 10f64.powf(-2.0 - 5.0 * rng.unit());
                [g as f32, (g + (rng.unit() - 0.5) * s) as f32, (g + (rng.unit() - 0.5) * s) as f32]
            }
            _ => {
                // signed zeros and tiny magnitudes
                let v = [0.0f32, -0.0, 1e-30, -1e-30, 1.0, 0.5, 1.3e-5, -1.3e-5];
                [rng.pick(&v), rng.pick(&v), rng.pick(&v)]
            }
        },
        3 => {
            if rng.below(3) == 0 {
                crate::gen::related_px(rng, 2.0)
            } else {
                [rng.unit() as f32, rng.unit() as f32, rng.unit() as f32]
            }
        }
        _ => [rng.range(-0.5, 2.0) as f32, rng.range(-0.5, 2.0) as f32, rng.range(-0.5, 2.0) as f32],
    }
}

type C6At = (usize, usize, [f32; 3], usize, f32, f64);

pub fn c06(ctx: &Ctx) {
    let per_pair: u64 = ctx.arg_u64("pixels").unwrap_or(if ctx.flag("lite") { 1 << 15 } else { ctx.pick(1 << 21, 1 << 27) });
    let img: u64 = 4093; // prime pixel count per call
    let rounds = per_pair / img + 1;
    let np = PRIMARIES.len();
    let worst: Mutex<Vec<[Worst<C6At>; 2]>> = Mutex::new(vec![[Worst::new(), Worst::new()]; np * 2]);
    let distinct = Distinct::new(ctx.pick(27, 31));
    let evals = AtomicU64::new(0);
    let id_inexact = AtomicU64::new(0);
    ev::par_ranges("C06", rounds, 1, |_w, a, _b| {
        let mut rng = Rng::new(ctx.seed, 0x0C06_0000 + a);
        // a shuffled order of the 22 (primaries, direction) pairs: consecutive conversions on one
        // thread share none, one or both endpoints, in every combination over the rounds
        let mut order: Vec<usize> = (0..np * 2).collect();
        for i in (1..order.len()).rev() {
            order.swap(i, rng.below(i as u64 + 1) as usize);
        }
        for &pd in &order {
            let (pi, dir) = (pd / 2, pd % 2);
            let p = PRIMARIES[pi];
            let (from, to) = if dir == 0 { (p, CP::BT709) } else { (CP::BT709, p) };
            let m = primaries_matrix(from, to);
            // image length: usually ~4090 pixels; sometimes 1..7 pixels; sometimes every pixel doubled and the order reversed
            let variant = rng.below(8);
            let n = if variant == 0 { 1 + rng.below(7) as usize } else { (img - rng.below(4)) as usize };
            let mut px: Vec<[f32; 3]> = (0..n as u64).map(|i| c06_px(&mut rng, i)).collect();
            if variant == 1 {
                let mut v = Vec::with_capacity(n);
                for i in (0..n / 2).rev() {
                    v.push(px[i]);
                    v.push(px[i]);
                }
                if v.len() < n {
                    v.push(px[0]);
                }
                px = v;
            }
            if variant == 2 {
                // hostile companions between the subjects (not judged)
                let hostile = [[f32::NAN; 3], [f32::INFINITY, 0.5, 0.5], [0.5, f32::NEG_INFINITY, 3e38], [f32::NAN, 0.0, 1.0], [-1e30, 1e30, 0.0]];
                for i in (1..n.saturating_sub(1)).step_by(3) {
                    px[i] = hostile[(i / 3) % hostile.len()];
                }
            }
            if variant == 4 || variant == 5 {
                // ordinary display-referred content: no component of the frame is negative (variant 5: nor above 1)
                for p in px.iter_mut() {
                    for c in p.iter_mut() {
                        *c = if variant == 5 { c.abs().min(1.0) } else { c.abs() };
                    }
                }
            }
            if variant == 6 {
                // long runs of similar pixels: the six strata of the generator one after another
                px = (0..6).flat_map(|k| (k..n).step_by(6)).map(|i| px[i]).collect();
            }
            px[n - 1] = [1.0, 1.0, 1.0];
            let mut shape = if n % 3 == 0 { (n / 3, 3) } else { (n, 1) };
            if variant == 3 && n >= 128 {
                // letterboxed: rows of 61 pixels, whole rows of black above and between the rows of subjects, none below
                let (v, _, h) = letterbox(&px, 61, [0.0; 3]);
                px = v;
                shape = (61, h);
            }
            let n = px.len();
            px[n - 1] = [1.0, 1.0, 1.0];
            let (w, h) = shape;
            let out = match conv(px.clone(), w, h, p, dir) {
                Ok(o) => o,
                Err(e) => {
                    ev::violation(format!("C06|conversion-error|{p:?}|dir={dir}"), e, J::obj().set("kind", "primaries").set("primaries", format!("{p:?}")).set("dir", dir).set("pixel", px_json(px[0])));
                    continue;
                }
            };
            if out.len() != n {
                ev::violation(format!("C06|length|{p:?}"), format!("{n} in {} out", out.len()), J::Null);
                continue;
            }
            let mut wfwd = Worst::new();
            let in_dom = |p: [f32; 3]| p.iter().all(|v| *v >= -0.5 && *v <= 2.0);
            for i in 0..n {
                if !in_dom(px[i]) {
                    continue; // a hostile companion
                }
                let want = mat_vec(m, px64(px[i]));
                for c in 0..3 {
                    let e = (out[i][c] as f64 - want[c]).abs() / want[c].abs().max(1.0);
                    wfwd.upd(e, (pi, dir, px[i], c, out[i][c], want[c]));
                }
                distinct.insert(hash_mix(pd as u64, hash_px(px[i])));
            }
            // white
            let wh = out[n - 1];
            let we = wh.iter().map(|v| (*v as f64 - 1.0).abs()).fold(0.0, |a: f64, b| if b.is_nan() { f64::NAN } else { a.max(b) });
            if !(we <= 1e-5) {
                ev::violation(
                    format!("C06|white|{p:?}|dir={dir}"),
                    format!("white (1,1,1) maps to {wh:?}"),
                    J::obj().set("kind", "primaries").set("primaries", format!("{p:?}")).set("dir", dir).set("pixel", px_json([1.0; 3])),
                );
            }
            // identity must be bit exact
            if p == CP::BT709 {
                let bad = px.iter().zip(out.iter()).filter(|(a, b)| (0..3).any(|c| a[c].to_bits() != b[c].to_bits())).count() as u64;
                if bad > 0 && id_inexact.fetch_add(bad, Relaxed) == 0 {
                    ev::violation(format!("C06|identity-not-exact|dir={dir}"), format!("{bad} pixels changed with identical source and target primaries"), J::obj().set("kind", "primaries").set("primaries", "BT709").set("dir", dir).set("pixel", px_json(px[0])));
                }
            }
            // there and back
            let mut wrt = Worst::new();
            match conv(out.clone(), w, h, p, 1 - dir) {
                Ok(back) => {
                    for i in 0..n {
                        if !in_dom(px[i]) {
                            continue;
                        }
                        for c in 0..3 {
                            wrt.upd((back[i][c] as f64 - px[i][c] as f64).abs(), (pi, dir, px[i], c, back[i][c], px[i][c] as f64));
                        }
                    }
                }
                Err(e) => ev::violation(format!("C06|conversion-error|{p:?}|dir={}", 1 - dir), e, J::Null),
            }
            evals.fetch_add(2 * n as u64, Relaxed);
            let mut g = worst.lock().unwrap();
            g[pd][0].merge(&wfwd);
            g[pd][1].merge(&wrt);
        }
    });
    let g = worst.lock().unwrap();
    let mut table = Vec::new();
    for pd in 0..np * 2 {
        let (pi, dir) = (pd / 2, pd % 2);
        let p = PRIMARIES[pi];
        let (from, to) = if dir == 0 { (p, CP::BT709) } else { (CP::BT709, p) };
        let m = primaries_matrix(from, to);
        // recover the observed matrix from unit vectors
        let units = vec![[1.0f32, 0.0, 0.0], [0.0, 1.0, 0.0], [0.0, 0.0, 1.0]];
        let obs = conv(units, 3, 1, p, dir).ok();
        let mut row = J::obj()
            .set("primaries", format!("{p:?}"))
            .set("direction", if dir == 0 { "P->BT709" } else { "BT709->P" })
            .set("worst_rel_err", g[pd][0].err)
            .set("worst_there_and_back_abs_err", g[pd][1].err)
            .set("model_matrix", J::Arr(m.iter().map(|r| J::from(*r)).collect()));
        if let Some(o) = obs {
            // columns of the matrix are the images of the unit vectors
            let mm: Vec<J> = (0..3).map(|r| J::from([o[0][r], o[1][r], o[2][r]])).collect();
            row.put("observed_matrix", J::Arr(mm));
        }
        for (k, name, tol) in [(0usize, "accuracy", 1e-5), (1usize, "there-and-back", 1e-5)] {
            let w = g[pd][k];
            if !(w.err <= tol) {
                if let Some((_, _, px, c, got, want)) = w.at {
                    ev::violation(
                        format!("C06|{name}|{p:?}|dir={dir}"),
                        format!("pixel {px:?} component {c}: got {got:e}, want {want:e}, err {:.3e} > {tol:e}", w.err),
                        J::obj().set("kind", "primaries").set("check", name).set("primaries", format!("{p:?}")).set("dir", dir).set("pixel", px_json(px)),
                    );
                }
            }
        }
        table.push(row);
    }
    for r in table.iter().take(3) {
        ev::sample(r.clone());
    }
    // one image of more than 2^20 pixels per direction (thresholds on the image size; worker splits)
    if !ctx.flag("lite") || ctx.flag("big") {
        let mut rng = Rng::new(ctx.seed, 0x0C06_B16);
        let n = (1usize << 20) + 5;
        let px: Vec<[f32; 3]> = (0..n as u64).map(|i| c06_px(&mut rng, i)).collect();
        for (k, p) in [CP::BT2020, CP::P3DCI, CP::BT470M].into_iter().enumerate() {
            for dir in 0..2 {
                if (k + dir + ctx.seed as usize) % 2 == 1 && ctx.flag("lite") {
                    continue;
                }
                let (from, to) = if dir == 0 { (p, CP::BT709) } else { (CP::BT709, p) };
                let m = primaries_matrix(from, to);
                let Ok(out) = conv(px.clone(), n, 1, p, dir) else { continue };
                let mut w = Worst::new();
                if out.len() == n {
                    for i in (0..64).chain(n - 64..n).chain((0..4096).map(|_| rng.below(n as u64) as usize)) {
                        let q = px[i];
                        if !q.iter().all(|v| *v >= -0.5 && *v <= 2.0) {
                            continue;
                        }
                        let want = mat_vec(m, px64(q));
                        for c in 0..3 {
                            w.upd((out[i][c] as f64 - want[c]).abs() / want[c].abs().max(1.0), (q, c, out[i][c], want[c]));
                        }
                    }
                } else {
                    w.upd(f64::NAN, ([0.0; 3], 0, 0.0, 0.0));
                }
                evals.fetch_add(4224, Relaxed);
                if !(w.err <= 1e-5) {
                    if let Some((q, c, got, want)) = w.at {
                        ev::violation(
                            format!("C06|big-image|{p:?}|dir={dir}"),
                            format!("in one {n}-pixel image, pixel {q:?} component {c}: got {got:e}, want {want:e}"),
                            J::obj().set("kind", "primaries").set("check", "accuracy").set("primaries", format!("{p:?}")).set("dir", dir).set("pixel", px_json(q)),
                        );
                    }
                }
            }
        }
        ev::observe("big_image_pixels", n);
    }
    // the primaries stage must also run when the *transfer* is left Unspecified (documented: treated as sRGB),
    // and an Unspecified primaries field means BT.709: bit-identical to the spelled-out request
    {
        let mut rng = Rng::new(ctx.seed, 0x0C06_5EC);
        let px: Vec<[f32; 3]> = (0..61).map(|_| [rng.unit() as f32, rng.unit() as f32, rng.unit() as f32]).collect();
        let n = px.len();
        let mut cases = 0u64;
        let same = |a: &[[f32; 3]], b: &[[f32; 3]]| a.len() == b.len() && a.iter().zip(b).all(|(x, y)| (0..3).all(|c| x[c].to_bits() == y[c].to_bits()));
        for p in PRIMARIES.iter().copied().chain([CP::Unspecified]) {
            for t in [TC::Unspecified, TC::Linear, TC::BT1886] {
                if p != CP::Unspecified && t != TC::Unspecified {
                    continue;
                }
                let (wt, wp) = (if t == TC::Unspecified { TC::SRGB } else { t }, if p == CP::Unspecified { CP::BT709 } else { p });
                cases += 2;
                let case = |dir: usize| J::obj().set("kind", "primaries-unspecified").set("primaries", format!("{p:?}")).set("transfer", format!("{t:?}")).set("dir", dir);
                // towards the working space
                let a = Rgb::new(px.clone(), n, 1, t, p).ok().and_then(|r| LinearRgb::try_from(r).ok());
                let b = Rgb::new(px.clone(), n, 1, wt, wp).ok().and_then(|r| LinearRgb::try_from(r).ok());
                match (a, b) {
                    (Some(a), Some(b)) if same(a.data(), b.data()) => {}
                    (a, b) => ev::violation(
                        format!("C06|unspecified-field-skips-stage|{p:?}|dir=0"),
                        format!("LinearRgb::try_from(Rgb tagged ({t:?}, {p:?})) differs from the same image tagged ({wt:?}, {wp:?}) (ok: {} / {})", a.is_some(), b.is_some()),
                        case(0),
                    ),
                }
                // away from it
                let lin = LinearRgb::new(px.clone(), n, 1).unwrap();
                let a = Rgb::try_from((lin.clone(), t, p)).ok();
                let b = Rgb::try_from((lin, wt, wp)).ok();
                match (a, b) {
                    (Some(a), Some(b)) if same(a.data(), b.data()) && a.primaries() == wp && a.transfer() == wt => {}
                    (a, b) => ev::violation(
                        format!("C06|unspecified-field-skips-stage|{p:?}|dir=1"),
                        format!("Rgb::try_from((LinearRgb, {t:?}, {p:?})) differs in samples or labels from the request ({wt:?}, {wp:?}) (labels {:?}; ok: {})", a.as_ref().map(|r| (r.transfer(), r.primaries())), b.is_some()),
                        case(1),
                    ),
                }
            }
        }
        // an image refilled with clone_from converts like the image it was filled from
        for p1 in PRIMARIES {
            for p2 in [CP::BT709, CP::BT2020, CP::P3Display] {
                if p1 == p2 {
                    continue;
                }
                cases += 1;
                let src = Rgb::new(px.clone(), n, 1, TC::Linear, p1).unwrap();
                let mut buf = Rgb::new(vec![[0.5; 3]; 4], 2, 2, TC::Linear, p2).unwrap();
                buf.clone_from(&src);
                let a = LinearRgb::try_from(buf).ok();
                let b = LinearRgb::try_from(src).ok();
                match (a, b) {
                    (Some(a), Some(b)) if same(a.data(), b.data()) => {}
                    _ => ev::violation(
                        format!("C06|refilled-image|{p1:?}"),
                        format!("an Rgb that held {p2:?} data and was refilled with clone_from from a {p1:?} image does not convert like that image"),
                        J::obj().set("kind", "primaries-unspecified").set("primaries", format!("{p1:?}")).set("transfer", "Linear").set("dir", 0),
                    ),
                }
            }
        }
        ev::observe("unspecified_field_cases", cases);
        evals.fetch_add(cases * n as u64, Relaxed);
    }
    ev::observe("per_primaries_direction", J::Arr(table));
    ev::observe("identity_bit_inexact_pixels", id_inexact.load(Relaxed));
    ev::add_evals(evals.load(Relaxed));
    ev::add_nontrivial(distinct.count());
    ev::exhaustive(false);
    ev::rule(
        "11 primaries x 2 directions, observed through LinearRgb::try_from(Rgb{Linear,P}) and Rgb::try_from((LinearRgb,Linear,P)); per round the 22 pairs run in a seed-shuffled order on one thread \
         (so consecutive conversions share none/one/both endpoints), each on an image of 4090..4093 pixels (5^3 grid over [-0.5,2], axis points, greys, unit cube, uniform [-0.5,2]^3, white last); \
         each output compared with M*v (f64, Gauss-Jordan, H.273 chromaticities, Bradford), white, there-and-back, bit-exact identity; distinct = hash bitset over (pair, pixel)",
    );
}

// ------------------------------------------------------------------ C19
type M3 = [[f64; 3]; 3];
fn det3(a: &M3) -> f64 {
    a[0][0] * (a[1][1] * a[2][2] - a[1][2] * a[2][1]) - a[0][1] * (a[1][0] * a[2][2] - a[1][2] * a[2][0]) + a[0][2] * (a[1][0] * a[2][1] - a[1][1] * a[2][0])
}

trait Scalar: Copy + yuvxyb_math_bounds::Bounds {
    fn from64(v: f64) -> Self;
    fn to64(self) -> f64;
    const NAME: &'static str;
}
mod yuvxyb_math_bounds {
    // the bounds the math crate asks for are on a private trait; f32 and f64 are the two instances
    pub trait Bounds {}
    impl Bounds for f32 {}
    impl Bounds for f64 {}
}
impl Scalar for f32 {
    fn from64(v: f64) -> f32 {
        v as f32
    }
    fn to64(self) -> f64 {
        self as f64
    }
    const NAME: &'static str = "f32";
}
impl Scalar for f64 {
    fn from64(v: f64) -> f64 {
        v
    }
    fn to64(self) -> f64 {
        self
    }
    const NAME: &'static str = "f64";
}

fn gen_matrix(rng: &mut Rng, kind: u64) -> M3 {
    let r = |rng: &mut Rng| rng.range(-2.0, 2.0);
    match kind {
        0 => match rng.below(4) {
            0 => {
                // a rotation (about a random axis order) scaled by a factor near 1: nearly orthonormal
                let (a, b) = (rng.range(0.0, 6.283), rng.range(0.0, 6.283));
                let s = if rng.coin() { 1.0 } else { rng.range(0.99, 1.01) };
                let rz = [[a.cos(), -a.sin(), 0.0], [a.sin(), a.cos(), 0.0], [0.0, 0.0, 1.0]];
                let rx = [[1.0, 0.0, 0.0], [0.0, b.cos(), -b.sin()], [0.0, b.sin(), b.cos()]];
                let mut m = mat_mul(rz, rx);
                for row in m.iter_mut() {
                    for v in row.iter_mut() {
                        *v *= s;
                    }
                }
                m
            }
            1 => {
                // wide dynamic range: entries from 1e-6 to 2
                let mut m = [[0.0; 3]; 3];
                for row in m.iter_mut() {
                    for v in row.iter_mut() {
                        *v = if rng.coin() { 1.0 } else { -1.0 } * 2.0 * 10f64.powf(-6.0 * rng.unit() * rng.unit());
                    }
                }
                m
            }
            _ => [[r(rng), r(rng), r(rng)], [r(rng), r(rng), r(rng)], [r(rng), r(rng), r(rng)]],
        },
        1 => {
            let mut m = [[0.0; 3]; 3];
            for i in 0..3 {
                m[i][i] = r(rng);
            }
            m
        }
        2 => {
            // signed permutation
            let perms = [[0, 1, 2], [0, 2, 1], [1, 0, 2], [1, 2, 0], [2, 0, 1], [2, 1, 0]];
            let p = rng.pick(&perms);
            let mut m = [[0.0; 3]; 3];
            for i in 0..3 {
                m[i][p[i]] = if rng.coin() { 1.0 } else { -1.0 } * if rng.coin() { 1.0 } else { 2.0 };
            }
            m
        }
        3 => {
            let mut m = [[0.0; 3]; 3];
            for i in 0..3 {
                for j in 0..3 {
                    m[i][j] = rng.below(5) as f64 - 2.0;
                }
            }
            m
        }
        4 => {
            // identity-like plus ONE off-diagonal entry, so that exactly one off-diagonal cofactor is non-zero
            let mut m = [[0.0; 3]; 3];
            for i in 0..3 {
                m[i][i] = if rng.coin() { 1.0 } else { rng.range(0.8, 2.0) };
            }
            let i = rng.below(3) as usize;
            let mut j = rng.below(3) as usize;
            if j == i {
                j = (j + 1) % 3;
            }
            m[i][j] = r(rng);
            m
        }
        5 => {
            // |det| just above 0.5: scale a random matrix
            let mut m = [[r(rng), r(rng), r(rng)], [r(rng), r(rng), r(rng)], [r(rng), r(rng), r(rng)]];
            let d = det3(&m).abs();
            if d > 0.6 {
                let s = ((0.5 + 0.1 * rng.unit()) / d).cbrt();
                for row in m.iter_mut() {
                    for v in row.iter_mut() {
                        *v *= s;
                    }
                }
            }
            m
        }
        6 => {
            // the library's own colour matrices
            let ms = [MC::BT709, MC::BT470M, MC::ST170M, MC::ST240M, MC::BT2020NonConstantLuminance, MC::YCgCo];
            let m = rng.pick(&ms);
            let mut o = [[0.0; 3]; 3];
            for (c, unit) in [[1.0, 0.0, 0.0], [0.0, 1.0, 0.0], [0.0, 0.0, 1.0]].iter().enumerate() {
                let v = rgb_to_ypbpr(m, *unit);
                for rr in 0..3 {
                    o[rr][c] = v[rr];
                }
            }
            o
        }
        _ => {
            // large entries near +-2 with sign patterns (cancellation in minors)
            let mut m = [[0.0; 3]; 3];
            for row in m.iter_mut() {
                for v in row.iter_mut() {
                    *v = if rng.coin() { 1.0 } else { -1.0 } * rng.range(1.5, 2.0);
                }
            }
            if rng.coin() {
                // badly conditioned but inside the property's domain: one entry is re-solved (the determinant is
                // affine in each entry) so that |det| lands in [0.5, 0.7] while the other entries stay near +-2
                let target = if rng.coin() { 1.0 } else { -1.0 } * rng.range(0.5, 0.7);
                let start = rng.below(9) as usize;
                for k in 0..9 {
                    let (i, j) = ((start + k) % 9 / 3, (start + k) % 3);
                    let old = m[i][j];
                    let d0 = det3(&m);
                    m[i][j] = old + 1.0;
                    let cof = det3(&m) - d0;
                    m[i][j] = old;
                    if cof.abs() < 1e-3 {
                        continue;
                    }
                    let new = old + (target - d0) / cof;
                    if new.abs() <= 2.0 {
                        m[i][j] = new;
                        break;
                    }
                }
            }
            m
        }
    }
}
const MKINDS: [&str; 8] = ["random", "diagonal", "signed-permutation", "small-integer", "single-off-diagonal", "det-just-above-0.5", "colour-matrices", "large-entries"];

const C19_OPS: [&str; 8] = ["mul_vec", "mul_arr", "mul_mat", "cross", "dot", "scalar_div", "component_mul", "matrix.scalar_div"];

macro_rules! c19_instance {
    ($T:ty, $name:expr, $a:expr, $b:expr, $v:expr, $u:expr, $div:expr, $worst:expr, $winv:expr, $flags:expr, $per:expr) => {{
        use yuvxyb_math::{ColVector, Matrix, RowVector};
        let cast = |m: &M3| -> M3 {
            let mut o = [[0.0; 3]; 3];
            for i in 0..3 {
                for j in 0..3 {
                    o[i][j] = (m[i][j] as $T) as f64;
                }
            }
            o
        };
        let castv = |v: &[f64; 3]| [(v[0] as $T) as f64, (v[1] as $T) as f64, (v[2] as $T) as f64];
        let (a, b, v, u) = (cast($a), cast($b), castv($v), castv($u));
        let div = ($div as $T) as f64;
        let mk = |m: &M3| {
            Matrix::<$T>::new(
                RowVector::new(m[0][0] as $T, m[0][1] as $T, m[0][2] as $T),
                RowVector::new(m[1][0] as $T, m[1][1] as $T, m[1][2] as $T),
                RowVector::new(m[2][0] as $T, m[2][1] as $T, m[2][2] as $T),
            )
        };
        let vals = |m: Matrix<$T>| -> M3 {
            let x = m.values();
            let mut o = [[0.0; 3]; 3];
            for i in 0..3 {
                for j in 0..3 {
                    o[i][j] = x[i][j] as f64;
                }
            }
            o
        };
        let ma = mk(&a);
        let mb = mk(&b);
        let mut chk = |op: &'static str, got: f64, want: f64| {
            let e = (got - want).abs() / want.abs().max(1.0);
            let e = if e.is_nan() { f64::NAN } else { e };
            $worst.upd(e, (op, $name, got, want));
            let slot = C19_OPS.iter().position(|o| *o == op).unwrap_or(0) * 2 + usize::from($name == "f64");
            if e > $per[slot] || e.is_nan() {
                $per[slot] = e;
            }
        };
        // mul_vec / mul_arr
        let cv = ColVector::<$T>::new(v[0] as $T, v[1] as $T, v[2] as $T);
        let mv = ma.mul_vec(&cv).values();
        let marr = ma.mul_arr([v[0] as $T, v[1] as $T, v[2] as $T]);
        let want = mat_vec(a, v);
        for i in 0..3 {
            chk("mul_vec", mv[i] as f64, want[i]);
            chk("mul_arr", marr[i] as f64, want[i]);
        }
        // mul_mat
        let mm = vals(ma.mul_mat(mb.clone()));
        let wmm = mat_mul(a, b);
        for i in 0..3 {
            for j in 0..3 {
                chk("mul_mat", mm[i][j], wmm[i][j]);
            }
        }
        // transpose involution (bitwise) and definition
        let t = vals(ma.clone().transpose());
        for i in 0..3 {
            for j in 0..3 {
                if t[i][j].to_bits() != a[j][i].to_bits() {
                    $flags[0] += 1;
                }
            }
        }
        if vals(ma.clone().transpose().transpose()) != a {
            $flags[1] += 1;
        }
        // identity neutral
        let id = Matrix::<$T>::identity();
        if vals(ma.mul_mat(id.clone())) != a || vals(id.mul_mat(ma.clone())) != a {
            $flags[2] += 1;
        }
        let idv = id.mul_vec(&cv).values();
        if (0..3).any(|i| (idv[i] as f64) != v[i]) {
            $flags[2] += 1;
        }
        // vectors
        let rv = RowVector::<$T>::new(v[0] as $T, v[1] as $T, v[2] as $T);
        let ru = RowVector::<$T>::new(u[0] as $T, u[1] as $T, u[2] as $T);
        let cr = rv.cross(&ru).values();
        let wcr = [v[1] * u[2] - v[2] * u[1], v[2] * u[0] - v[0] * u[2], v[0] * u[1] - v[1] * u[0]];
        for i in 0..3 {
            chk("cross", cr[i] as f64, wcr[i]);
        }
        chk("dot", rv.dot(&ru) as f64, v[0] * u[0] + v[1] * u[1] + v[2] * u[2]);
        let sd = rv.scalar_div(div as $T).values();
        let cm = rv.component_mul(&ru).values();
        // a quotient is compared only where the exact value is representable in this instance
        let tmax = <$T>::MAX as f64 / 4.0;
        for i in 0..3 {
            if div != 0.0 && (v[i] / div).abs() < tmax {
                chk("scalar_div", sd[i] as f64, v[i] / div);
            }
            chk("component_mul", cm[i] as f64, v[i] * u[i]);
        }
        let msd = vals(ma.scalar_div(div as $T));
        for i in 0..3 {
            for j in 0..3 {
                if div != 0.0 && (a[i][j] / div).abs() < tmax {
                    chk("matrix.scalar_div", msd[i][j], a[i][j] / div);
                }
            }
        }
        // accessors
        if (ma.r1().x() as f64, ma.r2().y() as f64, ma.r3().z() as f64) != (a[0][0], a[1][1], a[2][2]) || cv.clone().transpose().values().map(|x| x as f64) != v || (cv.r() as f64, cv.g() as f64, cv.b() as f64) != (v[0], v[1], v[2]) {
            $flags[3] += 1;
        }
        // inverse
        let d = det3(&a);
        if d.abs() >= 0.5 {
            let inv = vals(ma.invert());
            let p1 = mat_mul(a, inv);
            let p2 = mat_mul(inv, a);
            for i in 0..3 {
                for j in 0..3 {
                    let idv = if i == j { 1.0 } else { 0.0 };
                    let e1 = (p1[i][j] - idv).abs();
                    let e2 = (p2[i][j] - idv).abs();
                    let e = if e1.is_nan() || e2.is_nan() { f64::NAN } else { e1.max(e2) };
                    $winv.upd(e, ($name, a, d));
                }
            }
            true
        } else {
            false
        }
    }};
}

pub fn c19(ctx: &Ctx) {
    let total: u64 = ctx.arg_u64("cases").unwrap_or(if ctx.flag("lite") { 1 << 20 } else { ctx.pick(1 << 23, 1 << 30) });
    let worst = Mutex::new(Worst::<(&'static str, &'static str, f64, f64)>::new());
    let worst_per_op: Mutex<std::collections::BTreeMap<String, f64>> = Mutex::new(Default::default());
    let winv = Mutex::new(Worst::<(&'static str, M3, f64)>::new());
    let flags = Mutex::new([0u64; 4]);
    let inv_n = AtomicU64::new(0);
    let kinds: Vec<AtomicU64> = (0..8).map(|_| AtomicU64::new(0)).collect();
    let distinct = Distinct::new(ctx.pick(26, 30));
    ev::par_ranges("C19", total, 1 << 14, |_w, a, b| {
        let mut rng = Rng::new(ctx.seed, 0x0C19_0000 + (a >> 14));
        let mut lw = Worst::new();
        let mut lwi = Worst::new();
        let mut lf = [0u64; 4];
        let mut per = [0.0f64; 16];
        let mut ninv = 0u64;
        for i in a..b {
            let kind = i % 8;
            kinds[kind as usize].fetch_add(1, Relaxed);
            let ma = gen_matrix(&mut rng, kind);
            let kb = rng.below(8);
            let mb = gen_matrix(&mut rng, kb);
            let v = [rng.range(-2.0, 2.0), rng.range(-2.0, 2.0), rng.range(-2.0, 2.0)];
            let u = if i % 16 < 2 { v } else { [rng.range(-2.0, 2.0), rng.range(-2.0, 2.0), rng.range(-2.0, 2.0)] };
            let mut div = rng.range(-2.0, 2.0);
            if div.abs() < 1.0 / 1024.0 {
                div = 0.5;
            }
            let mut v = v;
            let mut u = u;
            if i % 16 == 3 {
                // lattice vectors: products that tie exactly in magnitude, with equal or opposite signs
                let lat = [0.0f64, 0.5, -0.5, 1.0, -1.0, 2.0, -2.0, 1.0, -1.0];
                v = [rng.pick(&lat), rng.pick(&lat), rng.pick(&lat)];
                u = [rng.pick(&lat), rng.pick(&lat), rng.pick(&lat)];
            }
            if i % 64 == 5 {
                // element-wise division by very small (also subnormal) scalars; some components exactly zero
                div = rng.pick(&[2.5e-39f64, 1e-38, -3e-40, 1e-30, 1e-310, 4e-320, 1e-300]);
                v[rng.below(3) as usize] = 0.0;
                if rng.coin() {
                    v[rng.below(3) as usize] = 1e-3;
                }
            }
            let mut h = 0u64;
            for r in &ma {
                for x in r {
                    h = hash_mix(h, x.to_bits());
                }
            }
            distinct.insert(hash_mix(h, v[0].to_bits()));
            let mut one = Worst::new();
            if c19_instance!(f32, "f32", &ma, &mb, &v, &u, div, one, lwi, lf, per) {
                ninv += 1;
            }
            if c19_instance!(f64, "f64", &ma, &mb, &v, &u, div, one, lwi, lf, per) {
                ninv += 1;
            }
            lw.merge(&one);
        }
        inv_n.fetch_add(ninv, Relaxed);
        worst.lock().unwrap().merge(&lw);
        winv.lock().unwrap().merge(&lwi);
        let mut g = flags.lock().unwrap();
        for i in 0..4 {
            g[i] += lf[i];
        }
        let mut gp = worst_per_op.lock().unwrap();
        for (i, v) in per.iter().enumerate() {
            let e = gp.entry(format!("{}<{}>", C19_OPS[i / 2], if i % 2 == 0 { "f32" } else { "f64" })).or_insert(0.0);
            if *v > *e || v.is_nan() {
                *e = *v;
            }
        }
    });
    let w = worst.lock().unwrap();
    ev::observe("worst_rel_err_products", w.err);
    if let Some((op, inst, got, want)) = w.at {
        ev::observe("worst_products_at", J::obj().set("op", op).set("instance", inst).set("got", got).set("want", want));
        if !(w.err <= 1e-5) {
            ev::violation(format!("C19|{op}|{inst}"), format!("{op}<{inst}> returned {got:e}, exact {want:e} (err {:.3e} > 1e-5*max(1,|exact|))", w.err), J::obj().set("kind", "algebra").set("op", op).set("instance", inst).set("got", got).set("want", want));
        }
    }
    let wi = winv.lock().unwrap();
    ev::observe("worst_inverse_residual", wi.err);
    if let Some((inst, a, d)) = wi.at {
        let j = J::obj().set("kind", "inverse").set("instance", inst).set("matrix", J::Arr(a.iter().map(|r| J::from(*r)).collect())).set("det", d).set("residual", wi.err);
        ev::observe("worst_inverse_at", j.clone());
        ev::sample(j.clone());
        if !(wi.err <= 1e-4) {
            ev::violation(format!("C19|invert|{inst}"), format!("A*inv(A) or inv(A)*A is {:.3e} from the identity (> 1e-4), det {d}", wi.err), j);
        }
    }
    let f = flags.lock().unwrap();
    for (i, name) in ["transpose-definition", "transpose-involution", "identity-neutral", "accessors"].iter().enumerate() {
        ev::observe(&format!("exact_mismatches_{name}"), f[i]);
        if f[i] > 0 {
            ev::violation(format!("C19|{name}"), format!("{} bit-exact mismatches", f[i]), J::obj().set("kind", "algebra-exact").set("what", *name));
        }
    }
    ev::observe("worst_rel_err_per_op", J::Obj(worst_per_op.lock().unwrap().iter().map(|(k, v)| (k.clone(), J::from(*v))).collect()));
    let mut kj = J::obj();
    for (i, k) in MKINDS.iter().enumerate() {
        kj.put(k, kinds[i].load(Relaxed));
    }
    ev::observe("matrices_per_kind", kj);
    ev::observe("inverses_checked", inv_n.load(Relaxed));
    ev::add_evals(total * 2);
    ev::add_nontrivial(distinct.count());
    ev::exhaustive(false);
    ev::rule(
        "matrices with entries in [-2,2] of 8 kinds (random, diagonal, signed permutations, small-integer, identity plus one off-diagonal entry (isolates each cofactor), |det| scaled to just above 0.5, \
         the H.273 colour matrices, large entries with mixed signs) x random vectors; every public operation of Matrix/RowVector/ColVector, for the f32 and the f64 instantiation, against a naive f64 reference; \
         inverse checked when |det| >= 0.5; distinct = hash bitset over (matrix, vector)",
    );
}

pub fn replay(mon: &str, case: &J) -> bool {
    if mon == "C06" {
        let (Some(p), Some(dir), Some(px)) = (case.get("primaries").and_then(J::as_str).and_then(cp_by_name), case.get("dir").and_then(J::as_u64), case.get("pixel").and_then(parse_bits3)) else { return false };
        let dir = dir as usize;
        let (from, to) = if dir == 0 { (p, CP::BT709) } else { (CP::BT709, p) };
        let m = primaries_matrix(from, to);
        ev::add_evals(1);
        match conv(vec![px], 1, 1, p, dir) {
            Ok(o) => {
                let want = mat_vec(m, px64(px));
                let e = (0..3).map(|c| (o[0][c] as f64 - want[c]).abs() / want[c].abs().max(1.0)).fold(0.0, f64::max);
                let back = conv(o.clone(), 1, 1, p, 1 - dir).ok();
                let rt = back.map(|b| (0..3).map(|c| (b[0][c] as f64 - px[c] as f64).abs()).fold(0.0, f64::max));
                ev::observe("replay", J::obj().set("got", o[0]).set("want", want).set("rel_err", e).set("there_and_back", rt));
                if !(e <= 1e-5) || !(rt.unwrap_or(f64::NAN) <= 1e-5) {
                    ev::violation("C06|replay", format!("rel err {e:.3e}, there-and-back {rt:?}"), case.clone());
                }
            }
            Err(e) => ev::violation("C06|replay", e, case.clone()),
        }
        return true;
    }
    false
}
