//! C03 (transfer curves vs their defining formulas) and C10 (gamma->linear->gamma).
use crate::ev::{self, Worst};
use crate::json::J;
use crate::oracle::*;
use crate::util::*;
use crate::{Ctx, Tier};
use std::sync::atomic::{AtomicU64, Ordering::Relaxed};
use std::sync::Mutex;

const ONE_BITS: u32 = 0x3F80_0000;
/// pixels per library call; odd on purpose so that 3*PX is not a multiple of 2, 4, 8
const PX: u64 = 87_383;

pub fn exact_build() -> bool {
    !cfg!(feature = "fastmath")
}

/// set by `--property-budgets`: judge by the property's own budget even in an exact-math build
/// (the tighter 5e-5 of C20 applies only when the run is part of the C20 check)
pub static PROPERTY_BUDGETS: std::sync::atomic::AtomicBool = std::sync::atomic::AtomicBool::new(false);

pub fn budget_c03(t: TC, dir: usize) -> f64 {
    if exact_build() && !PROPERTY_BUDGETS.load(std::sync::atomic::Ordering::Relaxed) {
        5e-5
    } else if t == TC::PerceptualQuantizer && dir == 1 {
        5.7e-4
    } else {
        2.5e-4
    }
}
fn budget_c10(t: TC) -> f64 {
    if t == TC::PerceptualQuantizer {
        5.7e-4
    } else {
        2.5e-4
    }
}

pub fn model(t: TC, dir: usize, x: f64) -> f64 {
    if dir == 0 {
        to_linear(t, x, PQ_PRECISE, false)
    } else {
        to_gamma(t, x, PQ_PRECISE, false)
    }
}

/// which piece of a piecewise curve `x` falls in (for the coverage histogram)
fn segment(t: TC, dir: usize, x: f64) -> usize {
    match (t, dir) {
        (TC::SRGB, 0) => (x > 0.04045) as usize,
        (TC::SRGB, 1) => (x > 0.0031308) as usize,
        (TC::HybridLogGamma, 0) => (x > 0.5) as usize,
        (TC::HybridLogGamma, 1) => (x > 1.0 / 12.0) as usize,
        (TC::Logarithmic100, 1) => (x >= 0.01) as usize,
        (TC::Logarithmic316, 1) => (x >= 10f64.sqrt() / 1000.0) as usize,
        (TC::PerceptualQuantizer, 1) => (x * PQ_PRECISE.scale >= PQ_PRECISE.beta) as usize,
        (TC::PerceptualQuantizer, 0) => {
            // knee of the inverse OOTF in the PQ-coded domain
            let knee = to_gamma(TC::PerceptualQuantizer, PQ_PRECISE.beta / PQ_PRECISE.scale, PQ_PRECISE, false);
            (x >= knee) as usize
        }
        _ => 0,
    }
}

pub enum Inputs {
    All,
    List(Vec<u32>),
}
impl Inputs {
    pub fn len(&self) -> u64 {
        match self {
            Inputs::All => ONE_BITS as u64 + 1,
            Inputs::List(v) => v.len() as u64,
        }
    }
    #[inline]
    pub fn get(&self, i: u64) -> f32 {
        match self {
            Inputs::All => f32::from_bits(i as u32),
            Inputs::List(v) => f32::from_bits(v[i as usize]),
        }
    }
}

pub fn branch_points() -> Vec<f64> {
    let k = PQ_PRECISE;
    let pq_knee_lin = k.beta / k.scale;
    let pq_knee_gam = to_gamma(TC::PerceptualQuantizer, pq_knee_lin, k, false);
    vec![
        0.0,
        1.0,
        0.01,
        10f64.sqrt() / 1000.0,
        k.beta,
        4.5 * k.beta,
        0.018,
        0.081,
        0.0031308,
        0.04045,
        0.003_041_282_5,
        12.92 * 0.003_041_282_5,
        0.5,
        1.0 / 12.0,
        pq_knee_lin,
        pq_knee_gam,
        1.0 / 3.0,
        0.25,
        0.75,
    ]
}

pub fn quick_inputs(seed: u64, stride: u64, lite: bool) -> Inputs {
    let mut v: Vec<u32> = Vec::new();
    let phase = crate::gen::hash64(seed) % stride;
    let mut b = phase;
    while b <= ONE_BITS as u64 {
        v.push(b as u32);
        b += stride;
    }
    let radius: i64 = if lite { 1 << 9 } else { 1 << 12 };
    for bp in branch_points() {
        let c = (bp as f32).to_bits() as i64;
        for d in -radius..=radius {
            let x = c + d;
            if x >= 0 && x <= ONE_BITS as i64 {
                v.push(x as u32);
            }
        }
    }
    for e in 1..=127u32 {
        let c = (e << 23) as i64;
        for d in -64..=64i64 {
            let x = c + d;
            if x >= 0 && x <= ONE_BITS as i64 {
                v.push(x as u32);
            }
        }
    }
    // subnormals and the smallest normals
    for x in 0..256u32 {
        v.push(x);
        v.push(0x0080_0000 - 128 + x);
    }
    v.sort_unstable();
    v.dedup();
    Inputs::List(v)
}

fn pack(inputs: &Inputs, a: u64, b: u64) -> Vec<[f32; 3]> {
    // floats a..b packed three per pixel; the last pixel is padded by repeating the last float
    let mut px = Vec::with_capacity(((b - a + 2) / 3) as usize);
    let mut i = a;
    while i < b {
        let x0 = inputs.get(i);
        let x1 = if i + 1 < b { inputs.get(i + 1) } else { x0 };
        let x2 = if i + 2 < b { inputs.get(i + 2) } else { x1 };
        px.push([x0, x1, x2]);
        i += 3;
    }
    px
}

type At = (f32, f32, f64); // x, got, want

pub fn c03(ctx: &Ctx) {
    run(ctx, false);
}
pub fn c10(ctx: &Ctx) {
    run(ctx, true);
}

fn run(ctx: &Ctx, roundtrip: bool) {
    let prop = if roundtrip { "C10" } else { "C03" };
    let lite = ctx.flag("lite");
    let inputs = if ctx.tier == Tier::Thorough && !lite {
        Inputs::All
    } else {
        quick_inputs(ctx.seed, ctx.arg_u64("stride").unwrap_or(if lite { 2003 } else { 61 }), lite)
    };
    let total = inputs.len();
    let nt = TRANSFERS.len();
    let ndir = if roundtrip { 1 } else { 2 };
    let worst: Mutex<Vec<Worst<At>>> = Mutex::new(vec![Worst::new(); nt * 2]);
    let segs: Vec<AtomicU64> = (0..nt * 2 * 2).map(|_| AtomicU64::new(0)).collect();
    let linear_inexact = AtomicU64::new(0);
    let alias_mismatch = AtomicU64::new(0);
    let only_t: Option<TC> = ctx.arg("transfer").and_then(tc_by_name);
    let chunk = 3 * PX;
    ev::par_ranges(prop, total, chunk, |_w, a, b| {
        let inp = pack(&inputs, a, b);
        let mut loc = vec![Worst::<At>::new(); nt * 2];
        let mut lseg = vec![0u64; nt * 2 * 2];
        let mut base1886: [Option<Vec<[f32; 3]>>; 2] = [None, None];
        for (ti, t) in TRANSFERS.iter().copied().enumerate() {
            if only_t.is_some_and(|o| o != t) {
                continue;
            }
            for dir in 0..ndir {
                let out = if dir == 0 { lin_of(t, inp.clone()) } else { gam_of(t, inp.clone()) };
                let out = match out {
                    Ok(o) => o,
                    Err(e) => {
                        ev::violation(
                            format!("{prop}|transfer-error|{t:?}"),
                            format!("supported transfer {t:?} failed: {e}"),
                            J::obj().set("kind", "curve").set("transfer", format!("{t:?}")).set("dir", dir).set("x_bits", inp[0][0].to_bits()),
                        );
                        continue;
                    }
                };
                if out.len() != inp.len() {
                    ev::violation(format!("{prop}|length|{t:?}"), format!("{} pixels in, {} out", inp.len(), out.len()), J::Null);
                    continue;
                }
                if roundtrip {
                    let back = match gam_of(t, out) {
                        Ok(o) => o,
                        Err(e) => {
                            ev::violation(format!("{prop}|transfer-error|{t:?}"), e, J::Null);
                            continue;
                        }
                    };
                    for (p, q) in inp.iter().zip(back.iter()) {
                        for c in 0..3 {
                            let e = (q[c] as f64 - p[c] as f64).abs();
                            loc[ti * 2].upd(e, (p[c], q[c], p[c] as f64));
                        }
                    }
                    continue;
                }
                for (p, q) in inp.iter().zip(out.iter()) {
                    for c in 0..3 {
                        let x = p[c];
                        let want = model(t, dir, x as f64);
                        let e = (q[c] as f64 - want).abs();
                        loc[ti * 2 + dir].upd(e, (x, q[c], want));
                        lseg[(ti * 2 + dir) * 2 + segment(t, dir, x as f64)] += 1;
                    }
                }
                if t == TC::Linear {
                    let bad = inp.iter().zip(out.iter()).filter(|(p, q)| (0..3).any(|c| p[c].to_bits() != q[c].to_bits())).count() as u64;
                    if bad > 0 && linear_inexact.fetch_add(bad, Relaxed) == 0 {
                        let (p, q) = inp.iter().zip(out.iter()).find(|(p, q)| (0..3).any(|c| p[c].to_bits() != q[c].to_bits())).unwrap();
                        ev::violation(
                            format!("C03|linear-not-identity|dir={dir}"),
                            format!("Linear changed {p:?} into {q:?}"),
                            J::obj().set("kind", "curve").set("transfer", "Linear").set("dir", dir).set("x_bits", p[0].to_bits()),
                        );
                    }
                }
                match t {
                    TC::BT1886 => base1886[dir] = Some(out),
                    TC::ST170M | TC::ST240M | TC::BT2020Ten | TC::BT2020Twelve => {
                        if let Some(base) = &base1886[dir] {
                            if let Some(i) = (0..out.len()).find(|i| (0..3).any(|c| out[*i][c].to_bits() != base[*i][c].to_bits())) {
                                if alias_mismatch.fetch_add(1, Relaxed) == 0 {
                                    ev::violation(
                                        format!("C03|alias-mismatch|{t:?}|dir={dir}"),
                                        format!("{t:?} gives {:?} but BT1886 gives {:?} for {:?}", out[i], base[i], inp[i]),
                                        J::obj().set("kind", "curve").set("transfer", format!("{t:?}")).set("dir", dir).set("x_bits", inp[i][0].to_bits()),
                                    );
                                }
                            }
                        }
                    }
                    _ => {}
                }
            }
        }
        let mut g = worst.lock().unwrap();
        for i in 0..nt * 2 {
            g[i].merge(&loc[i]);
        }
        for (i, v) in lseg.iter().enumerate() {
            if *v > 0 {
                segs[i].fetch_add(*v, Relaxed);
            }
        }
    });
    let g = worst.lock().unwrap();
    let mut table = Vec::new();
    let mut ncurves = 0u64;
    for (ti, t) in TRANSFERS.iter().copied().enumerate() {
        if only_t.is_some_and(|o| o != t) {
            continue;
        }
        for dir in 0..ndir {
            ncurves += 1;
            let w = g[ti * 2 + dir];
            let budget = if roundtrip { budget_c10(t) } else { budget_c03(t, dir) };
            let dname = if roundtrip { "gamma->linear->gamma" } else if dir == 0 { "to_linear" } else { "to_gamma" };
            let mut row = J::obj().set("transfer", format!("{t:?}")).set("dir", dname).set("worst_abs_err", w.err).set("budget", budget);
            if let Some((x, got, want)) = w.at {
                row.put("argmax", J::obj().set("x", x).set("x_bits", format!("{:#010x}", x.to_bits())).set("got", got).set("want", want));
            }
            if !roundtrip {
                row.put("inputs_per_segment", vec![segs[(ti * 2 + dir) * 2].load(Relaxed), segs[(ti * 2 + dir) * 2 + 1].load(Relaxed)]);
            }
            table.push(row);
            if !(w.err < budget) {
                let (x, got, want) = w.at.unwrap_or((f32::NAN, f32::NAN, f64::NAN));
                ev::violation(
                    format!("{prop}|curve|{t:?}|{dname}"),
                    format!("x={x:e} ({:#010x}): got {got:e}, want {want:e}, |err| {:.3e} >= {budget:e}", x.to_bits(), w.err),
                    J::obj().set("kind", if roundtrip { "roundtrip" } else { "curve" }).set("transfer", format!("{t:?}")).set("dir", dir).set("x_bits", x.to_bits()),
                );
            }
        }
    }
    ev::add_evals(total * ncurves);
    // Linear is the identity and therefore trivial
    let nontrivial_curves = ncurves.saturating_sub(if only_t.is_none() { ndir as u64 } else { 0 });
    ev::add_nontrivial(total * nontrivial_curves);
    ev::observe("distinct_f32_inputs", total);
    ev::observe("curve_directions", ncurves);
    ev::observe("budget_regime", if exact_build() && !roundtrip && !PROPERTY_BUDGETS.load(std::sync::atomic::Ordering::Relaxed) { "exact-math build: 5e-5" } else { "property budgets" });
    ev::observe("linear_bit_inexact_pixels", linear_inexact.load(Relaxed));
    ev::observe("alias_mismatch_chunks", alias_mismatch.load(Relaxed));
    for r in table.iter().take(4) {
        ev::sample(r.clone());
    }
    ev::observe("per_curve", J::Arr(table));
    let exh = matches!(inputs, Inputs::All) && only_t.is_none();
    ev::exhaustive(exh);
    ev::rule(if exh {
        "all 1,065,353,217 f32 in [0,1] x 14 transfer characteristics x directions, packed three per pixel into images of 87,383 pixels (odd, so vectorised tails are exercised) and \
         pushed through LinearRgb::try_from(Rgb{t,BT709}) / Rgb::try_from((LinearRgb,t,BT709)); distinct by enumeration; the Linear curve is counted as trivial"
    } else {
        "every stride-th f32 bit pattern in [0,1] with a seed-dependent phase, plus all floats within +-2^12 ulp of every curve branch point, +-64 ulp around every power of two, \
         the 256 smallest subnormals and normals; x 14 transfer characteristics x directions; sorted and de-duplicated, so distinct by construction; the Linear curve is counted as trivial"
    });
}

pub fn replay(mon: &str, case: &J) -> bool {
    let Some(t) = case.get("transfer").and_then(J::as_str).and_then(tc_by_name) else { return false };
    let Some(dir) = case.get("dir").and_then(J::as_u64) else { return false };
    let Some(xb) = case.get("x_bits").and_then(J::as_u64) else { return false };
    let x = f32::from_bits(xb as u32);
    let dir = dir as usize;
    let inp = vec![[x, x, x]];
    ev::add_evals(1);
    if mon == "C10" || case.get("kind").and_then(J::as_str) == Some("roundtrip") {
        let back = lin_of(t, inp).and_then(|l| gam_of(t, l));
        match back {
            Ok(b) => {
                let e = (b[0][0] as f64 - x as f64).abs();
                ev::observe("replay", J::obj().set("x", x).set("back", b[0][0]).set("abs_err", e).set("budget", budget_c10(t)));
                if !(e < budget_c10(t)) {
                    ev::violation("C10|replay", format!("x={x:e} back={:e} err={e:.3e}", b[0][0]), case.clone());
                }
            }
            Err(e) => ev::violation("C10|replay", e, case.clone()),
        }
        return true;
    }
    let out = if dir == 0 { lin_of(t, inp) } else { gam_of(t, inp) };
    match out {
        Ok(o) => {
            let want = model(t, dir, x as f64);
            let e = (o[0][0] as f64 - want).abs();
            ev::observe("replay", J::obj().set("x", x).set("got", o[0][0]).set("want", want).set("abs_err", e).set("budget", budget_c03(t, dir)));
            if !(e < budget_c03(t, dir)) || (t == TC::Linear && o[0][0].to_bits() != x.to_bits()) {
                ev::violation("C03|replay", format!("x={x:e} got={:e} want={want:e} err={e:.3e}", o[0][0]), case.clone());
            }
            if matches!(t, TC::ST170M | TC::ST240M | TC::BT2020Ten | TC::BT2020Twelve) {
                let base = if dir == 0 { lin_of(TC::BT1886, vec![[x, x, x]]) } else { gam_of(TC::BT1886, vec![[x, x, x]]) };
                if let Ok(b) = base {
                    if b[0][0].to_bits() != o[0][0].to_bits() {
                        ev::violation("C03|replay-alias", format!("{t:?} {:e} vs BT1886 {:e}", o[0][0], b[0][0]), case.clone());
                    }
                }
            }
        }
        Err(e) => ev::violation("C03|replay", e, case.clone()),
    }
    true
}
