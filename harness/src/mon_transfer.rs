//! C03 (transfer curves vs their defining formulas) and C10 (gamma->linear->gamma).
use crate::ev::{self, Worst};
use crate::json::J;
use crate::oracle::*;
use crate::util::*;
use crate::{Ctx, Tier};
use std::sync::atomic::{AtomicU64, Ordering::Relaxed};
use std::sync::Mutex;
use yuvxyb::{LinearRgb, Rgb};

const ONE_BITS: u32 = 0x3F80_0000;
/// pixels per library call; odd on purpose so that 3*PX is not a multiple of 2, 4, 8
const PX: u64 = 87_383;

pub fn exact_build() -> bool {
    !cfg!(feature = "fastmath")
}

/// set by `--property-budgets`: judge by the property's own budget even in an exact-math build
/// (the tighter 5e-5 of C20 applies only when the run is part of the C20 check)
pub static PROPERTY_BUDGETS: std::sync::atomic::AtomicBool = std::sync::atomic::AtomicBool::new(false);

pub fn budget_c03(t: TC, dir: usize) -> f64 {
    if exact_build() && !PROPERTY_BUDGETS.load(std::sync::atomic::Ordering::Relaxed) {
        5e-5
    } else if t == TC::PerceptualQuantizer && dir == 1 {
        5.7e-4
    } else {
        2.5e-4
    }
}
fn budget_c10(t: TC) -> f64 {
    if t == TC::PerceptualQuantizer {
        5.7e-4
    } else {
        2.5e-4
    }
}

pub fn model(t: TC, dir: usize, x: f64) -> f64 {
    if dir == 0 {
        to_linear(t, x, PQ_PRECISE, false)
    } else {
        to_gamma(t, x, PQ_PRECISE, false)
    }
}

/// which piece of a piecewise curve `x` falls in (for the coverage histogram)
fn segment(t: TC, dir: usize, x: f64) -> usize {
    match (t, dir) {
        (TC::SRGB, 0) => (x > 0.04045) as usize,
        (TC::SRGB, 1) => (x > 0.0031308) as usize,
        (TC::HybridLogGamma, 0) => (x > 0.5) as usize,
        (TC::HybridLogGamma, 1) => (x > 1.0 / 12.0) as usize,
        (TC::Logarithmic100, 1) => (x >= 0.01) as usize,
        (TC::Logarithmic316, 1) => (x >= 10f64.sqrt() / 1000.0) as usize,
        (TC::PerceptualQuantizer, 1) => (x * PQ_PRECISE.scale >= PQ_PRECISE.beta) as usize,
        (TC::PerceptualQuantizer, 0) => {
            // knee of the inverse OOTF in the PQ-coded domain
            let knee = to_gamma(TC::PerceptualQuantizer, PQ_PRECISE.beta / PQ_PRECISE.scale, PQ_PRECISE, false);
            (x >= knee) as usize
        }
        _ => 0,
    }
}

pub enum Inputs {
    All,
    List(Vec<u32>),
}
impl Inputs {
    pub fn len(&self) -> u64 {
        match self {
            Inputs::All => ONE_BITS as u64 + 1,
            Inputs::List(v) => v.len() as u64,
        }
    }
    #[inline]
    pub fn get(&self, i: u64) -> f32 {
        match self {
            Inputs::All => f32::from_bits(i as u32),
            Inputs::List(v) => f32::from_bits(v[i as usize]),
        }
    }
}

pub fn branch_points() -> Vec<f64> {
    let k = PQ_PRECISE;
    let pq_knee_lin = k.beta / k.scale;
    let pq_knee_gam = to_gamma(TC::PerceptualQuantizer, pq_knee_lin, k, false);
    vec![
        0.0,
        1.0,
        0.01,
        10f64.sqrt() / 1000.0,
        k.beta,
        4.5 * k.beta,
        0.018,
        0.081,
        0.0031308,
        0.04045,
        0.003_041_282_5,
        12.92 * 0.003_041_282_5,
        0.5,
        1.0 / 12.0,
        pq_knee_lin,
        pq_knee_gam,
        1.0 / 3.0,
        0.25,
        0.75,
    ]
}

pub fn quick_inputs(seed: u64, stride: u64, lite: bool) -> Inputs {
    let mut v: Vec<u32> = Vec::new();
    let phase = crate::gen::hash64(seed) % stride;
    let mut b = phase;
    while b <= ONE_BITS as u64 {
        v.push(b as u32);
        b += stride;
    }
    let radius: i64 = if lite { 1 << 9 } else { 1 << 12 };
    for bp in branch_points() {
        let c = (bp as f32).to_bits() as i64;
        for d in -radius..=radius {
            let x = c + d;
            if x >= 0 && x <= ONE_BITS as i64 {
                v.push(x as u32);
            }
        }
    }
    for e in 1..=127u32 {
        let c = (e << 23) as i64;
        for d in -64..=64i64 {
            let x = c + d;
            if x >= 0 && x <= ONE_BITS as i64 {
                v.push(x as u32);
            }
        }
    }
    // the top of the range (where the PQ exponent of 78.84 amplifies every error of the fast log2) and the 10-bit codes
    if !lite {
        for d in 0..(1u32 << 17) {
            v.push(ONE_BITS - d);
        }
    }
    for k in 0..=1023u32 {
        v.push((k as f32 / 1023.0).to_bits());
        v.push(((k as f32 - 64.0).max(0.0) / 876.0).min(1.0).to_bits());
    }
    // subnormals and the smallest normals
    for x in 0..256u32 {
        v.push(x);
        v.push(0x0080_0000 - 128 + x);
    }
    v.sort_unstable();
    v.dedup();
    Inputs::List(v)
}

fn pack(inputs: &Inputs, a: u64, b: u64) -> Vec<[f32; 3]> {
    // floats a..b packed three per pixel; the last pixel is padded by repeating the last float
    let mut px = Vec::with_capacity(((b - a + 2) / 3) as usize);
    let mut i = a;
    while i < b {
        let x0 = inputs.get(i);
        let x1 = if i + 1 < b { inputs.get(i + 1) } else { x0 };
        let x2 = if i + 2 < b { inputs.get(i + 2) } else { x1 };
        px.push([x0, x1, x2]);
        i += 3;
    }
    px
}

type At = (f32, f32, f64); // x, got, want

pub fn c03(ctx: &Ctx) {
    run(ctx, false);
}
pub fn c10(ctx: &Ctx) {
    run(ctx, true);
}

fn run(ctx: &Ctx, roundtrip: bool) {
    let prop = if roundtrip { "C10" } else { "C03" };
    let lite = ctx.flag("lite");
    let inputs = if ctx.tier == Tier::Thorough && !lite {
        Inputs::All
    } else {
        quick_inputs(ctx.seed, ctx.arg_u64("stride").unwrap_or(if lite { 2003 } else { 61 }), lite)
    };
    let total = inputs.len();
    let nt = TRANSFERS.len();
    let ndir = if roundtrip { 1 } else { 2 };
    let worst: Mutex<Vec<Worst<At>>> = Mutex::new(vec![Worst::new(); nt * 2]);
    let segs: Vec<AtomicU64> = (0..nt * 2 * 2).map(|_| AtomicU64::new(0)).collect();
    let linear_inexact = AtomicU64::new(0);
    let alias_mismatch = AtomicU64::new(0);
    let only_t: Option<TC> = ctx.arg("transfer").and_then(tc_by_name);
    let chunk = 3 * PX;
    ev::par_ranges(prop, total, chunk, |_w, a, b| {
        let inp = pack(&inputs, a, b);
        let mut loc = vec![Worst::<At>::new(); nt * 2];
        let mut lseg = vec![0u64; nt * 2 * 2];
        let mut base1886: [Option<Vec<[f32; 3]>>; 2] = [None, None];
        for (ti, t) in TRANSFERS.iter().copied().enumerate() {
            if only_t.is_some_and(|o| o != t) {
                continue;
            }
            for dir in 0..ndir {
                let out = if dir == 0 { lin_of(t, inp.clone()) } else { gam_of(t, inp.clone()) };
                let out = match out {
                    Ok(o) => o,
                    Err(e) => {
                        ev::violation(
                            format!("{prop}|transfer-error|{t:?}"),
                            format!("supported transfer {t:?} failed: {e}"),
                            J::obj().set("kind", "curve").set("transfer", format!("{t:?}")).set("dir", dir).set("x_bits", inp[0][0].to_bits()),
                        );
                        continue;
                    }
                };
                if out.len() != inp.len() {
                    ev::violation(format!("{prop}|length|{t:?}"), format!("{} pixels in, {} out", inp.len(), out.len()), J::Null);
                    continue;
                }
                if roundtrip {
                    let back = match gam_of(t, out) {
                        Ok(o) => o,
                        Err(e) => {
                            ev::violation(format!("{prop}|transfer-error|{t:?}"), e, J::Null);
                            continue;
                        }
                    };
                    for (p, q) in inp.iter().zip(back.iter()) {
                        for c in 0..3 {
                            let e = (q[c] as f64 - p[c] as f64).abs();
                            loc[ti * 2].upd(e, (p[c], q[c], p[c] as f64));
                        }
                    }
                    continue;
                }
                for (p, q) in inp.iter().zip(out.iter()) {
                    for c in 0..3 {
                        let x = p[c];
                        let want = model(t, dir, x as f64);
                        let e = (q[c] as f64 - want).abs();
                        loc[ti * 2 + dir].upd(e, (x, q[c], want));
                        lseg[(ti * 2 + dir) * 2 + segment(t, dir, x as f64)] += 1;
                    }
                }
                if t == TC::Linear {
                    let bad = inp.iter().zip(out.iter()).filter(|(p, q)| (0..3).any(|c| p[c].to_bits() != q[c].to_bits())).count() as u64;
                    if bad > 0 && linear_inexact.fetch_add(bad, Relaxed) == 0 {
                        let (p, q) = inp.iter().zip(out.iter()).find(|(p, q)| (0..3).any(|c| p[c].to_bits() != q[c].to_bits())).unwrap();
                        ev::violation(
                            format!("C03|linear-not-identity|dir={dir}"),
                            format!("Linear changed {p:?} into {q:?}"),
                            J::obj().set("kind", "curve").set("transfer", "Linear").set("dir", dir).set("x_bits", p[0].to_bits()),
                        );
                    }
                }
                match t {
                    TC::BT1886 => base1886[dir] = Some(out),
                    TC::ST170M | TC::ST240M | TC::BT2020Ten | TC::BT2020Twelve => {
                        if let Some(base) = &base1886[dir] {
                            if let Some(i) = (0..out.len()).find(|i| (0..3).any(|c| out[*i][c].to_bits() != base[*i][c].to_bits())) {
                                if alias_mismatch.fetch_add(1, Relaxed) == 0 {
                                    ev::violation(
                                        format!("C03|alias-mismatch|{t:?}|dir={dir}"),
                                        format!("{t:?} gives {:?} but BT1886 gives {:?} for {:?}", out[i], base[i], inp[i]),
                                        J::obj().set("kind", "curve").set("transfer", format!("{t:?}")).set("dir", dir).set("x_bits", inp[i][0].to_bits()),
                                    );
                                }
                            }
                        }
                    }
                    _ => {}
                }
            }
        }
        let mut g = worst.lock().unwrap();
        for i in 0..nt * 2 {
            g[i].merge(&loc[i]);
        }
        for (i, v) in lseg.iter().enumerate() {
            if *v > 0 {
                segs[i].fetch_add(*v, Relaxed);
            }
        }
    });
    // ---- chained inputs: component k+1 is the library's own output for component k (also across pixel
    // boundaries), and tiny images (5 pixels = 15 components, so that loop tails and their neighbours cover
    // every position); both judged per component by the same oracle / round-trip rule
    let mut extra_evals = 0u64;
    {
        let base: Vec<f32> = {
            let mut rng = crate::gen::Rng::new(ctx.seed, 0xC4A1);
            let mut v: Vec<f32> = (0..=256).map(|i| i as f32 / 256.0).collect();
            v.extend([0.01f32, 0.0031308, 0.04045, 0.018, 0.081, 0.5, 1.0 / 12.0, 0.003_162_277_6]);
            for _ in 0..(if lite { 512 } else { 4096 }) {
                v.push(if rng.coin() { rng.unit() as f32 } else { rng.unit_bits() });
            }
            v
        };
        let step = if lite { 64 } else { 16 };
        let tiny: Vec<f32> = (0..total).step_by(step).map(|i| inputs.get(i)).collect();
        for (_ti, t) in TRANSFERS.iter().copied().enumerate() {
            if only_t.is_some_and(|o| o != t) {
                continue;
            }
            for dir in 0..ndir {
                let f = |v: Vec<[f32; 3]>| if dir == 0 { lin_of(t, v) } else { gam_of(t, v) };
                // b = f(a) from a plain batch of greys
                let Ok(fb) = f(base.iter().map(|a| [*a; 3]).collect()) else { continue };
                let mut stream: Vec<f32> = Vec::with_capacity(base.len() * 2 + 2);
                for (a, b) in base.iter().zip(fb.iter()) {
                    stream.push(*a);
                    stream.push(b[0]);
                }
                while stream.len() % 3 != 0 {
                    stream.push(0.25);
                }
                // how the buffer handed to the conversion is allocated: 0 = exact capacity (clone), otherwise with slack
                // (built by push(), or reserved 2x / 2x+1 / 4x / +1) - the conversions work in place on the caller's Vec
                let capmode = std::cell::Cell::new(0usize);
                let check_image = |img: Vec<[f32; 3]>, what: &str| {
                    let n = img.len();
                    let feed = || -> Vec<[f32; 3]> {
                        let cap = match capmode.get() {
                            0 => return img.clone(),
                            1 => {
                                let mut o = Vec::new();
                                for p in img.iter() {
                                    o.push(*p);
                                }
                                return o;
                            }
                            2 => 2 * n,
                            3 => 2 * n + 1,
                            4 => 4 * n + 3,
                            _ => n + 1,
                        };
                        let mut o = Vec::with_capacity(cap);
                        o.extend_from_slice(&img);
                        o
                    };
                    let (res, want_rt): (Result<Vec<[f32; 3]>, String>, bool) = if roundtrip { (f(feed()).and_then(|l| gam_of(t, l)), true) } else { (f(feed()), false) };
                    let Ok(out) = res else { return };
                    if out.len() != n {
                        return;
                    }
                    let mut w = Worst::<At>::new();
                    for (p, q) in img.iter().zip(out.iter()) {
                        for c in 0..3 {
                            let x = p[c];
                            if !(0.0..=1.0).contains(&x) {
                                continue;
                            }
                            let want = if want_rt { x as f64 } else { model(t, dir, x as f64) };
                            w.upd((q[c] as f64 - want).abs(), (x, q[c], want));
                        }
                    }
                    let budget = if roundtrip { budget_c10(t) } else { budget_c03(t, dir) };
                    if !(w.err < budget) {
                        if let Some((x, got, want)) = w.at {
                            ev::violation(
                                format!("{prop}|{what}|{t:?}|{}", if roundtrip { "gamma->linear->gamma" } else if dir == 0 { "to_linear" } else { "to_gamma" }),
                                format!("{what}: x={x:e} ({:#010x}) gives {got:e}, want {want:e} (|err| {:.3e} >= {budget:e}); the same value converts correctly on its own", x.to_bits(), w.err),
                                J::obj().set("kind", if roundtrip { "roundtrip" } else { "curve" }).set("transfer", format!("{t:?}")).set("dir", dir).set("x_bits", x.to_bits()).set("context", what),
                            );
                        }
                    }
                };
                extra_evals += stream.len() as u64;
                check_image(stream.chunks(3).map(|c| [c[0], c[1], c[2]]).collect(), "chained-components");
                // in-domain components that share their pixel (and their neighbourhood) with out-of-domain ones
                {
                    let hostile = [1.125f32, -0.25, f32::NAN, f32::INFINITY, 5.0, -0.0, f32::NEG_INFINITY, 1.0000001, -1e-30];
                    let img: Vec<[f32; 3]> = base
                        .iter()
                        .enumerate()
                        .map(|(i, a)| {
                            let hv = hostile[i % hostile.len()];
                            match i % 4 {
                                0 => [*a, hv, *a],
                                1 => [hv, *a, hv],
                                2 => [*a, *a, hv],
                                _ => [hv, hv, *a],
                            }
                        })
                        .collect();
                    extra_evals += img.len() as u64 * 3;
                    check_image(img, "hostile-companions");
                }
                // pixel-doubled content (every even-indexed pixel equals its successor), even and odd pixel counts
                {
                    let mut img: Vec<[f32; 3]> = Vec::with_capacity(2 * base.len() + 1);
                    for a in base.iter() {
                        img.push([*a, 1.0 - *a, *a * 0.5]);
                        img.push([*a, 1.0 - *a, *a * 0.5]);
                    }
                    extra_evals += img.len() as u64 * 3;
                    check_image(img.clone(), "pixel-doubled");
                    img.push([0.25, 0.5, 0.75]);
                    check_image(img, "pixel-doubled");
                    // two-tone frames
                    check_image(vec![[0.2, 0.4, 0.6], [0.2, 0.4, 0.6], [0.7, 0.1, 0.3], [0.7, 0.1, 0.3], [0.2, 0.4, 0.6], [0.2, 0.4, 0.6], [0.7, 0.1, 0.3], [0.7, 0.1, 0.3]], "pixel-doubled");
                }
                // the same kind of content in buffers that carry spare capacity
                for mode in 1..=5usize {
                    capmode.set(mode);
                    let k = [0usize, 1, 2, 5, 33, 64][mode];
                    let img: Vec<[f32; 3]> = base.iter().take(base.len() - k.min(base.len() - 1)).map(|a| [*a, 1.0 - *a, *a * 0.5]).collect();
                    extra_evals += img.len() as u64 * 3;
                    check_image(img, "buffer-with-spare-capacity");
                }
                capmode.set(0);
                // letterboxed: 16-pixel rows, whole rows of black above and between the rows of subjects, none below
                {
                    let img: Vec<[f32; 3]> = base.iter().map(|a| [*a, 1.0 - *a, *a]).collect();
                    let (v, _, _) = letterbox(&img, 16, [0.0; 3]);
                    extra_evals += v.len() as u64 * 3;
                    check_image(v, "letterboxed");
                }
                // whole frames with a relation between the channels that holds for *every* pixel: two channels equal and the
                // third one lower / higher (tinted monochrome, yellow, cyan, magenta swatches), as 1-pixel and 4-pixel frames
                {
                    let vals = [0.0f32, 0.2, 0.5, 0.8, 1.0, 0.003, 0.9999];
                    for (ai, a) in vals.iter().enumerate() {
                        for b in vals.iter() {
                            if a == b {
                                continue;
                            }
                            for pat in 0..3 {
                                let mk = |a: f32, b: f32| match pat {
                                    0 => [a, a, b],
                                    1 => [a, b, a],
                                    _ => [b, a, a],
                                };
                                let a2 = vals[(ai + 1) % vals.len()];
                                extra_evals += 15;
                                check_image(vec![mk(*a, *b)], "uniform-channel-relation");
                                if a2 != *b {
                                    check_image(vec![mk(*a, *b), mk(a2, *b), mk(*a, *b), mk(a2, *b)], "uniform-channel-relation");
                                }
                            }
                        }
                    }
                }
                // the curve must be the same whatever primaries the image carries: grey ramps (which every D65 primaries
                // conversion maps to themselves within 1e-5) tagged with other primaries, gamma -> linear
                if !roundtrip && dir == 0 {
                    for p in [CP::BT470BG, CP::BT2020, CP::P3Display] {
                        let ramp: Vec<[f32; 3]> = (0..=1024).map(|k| [k as f32 / 1024.0; 3]).collect();
                        let n = ramp.len();
                        let Ok(rgb) = Rgb::new(ramp.clone(), n, 1, t, p) else { continue };
                        let Ok(lin) = LinearRgb::try_from(rgb) else { continue };
                        extra_evals += n as u64 * 3;
                        let mut w = Worst::<At>::new();
                        for (q, o) in ramp.iter().zip(lin.data().iter()) {
                            let want = model(t, 0, q[0] as f64);
                            // BT.470M has another white point (C): its greys are adapted, not kept; judge the D65 sets only
                            if p == CP::BT470M {
                                continue;
                            }
                            for c in 0..3 {
                                w.upd(((o[c] as f64 - want).abs() - 3e-5 * want.abs().max(1.0)).max(0.0), (q[0], o[c], want));
                            }
                        }
                        let budget = budget_c03(t, 0);
                        if !(w.err < budget) {
                            if let Some((x, got, want)) = w.at {
                                ev::violation(
                                    format!("C03|grey-ramp-other-primaries|{t:?}|to_linear"),
                                    format!("grey {x} tagged ({t:?}, {p:?}) linearises to {got:e}; the curve gives {want:e} and the primaries conversion keeps greys (|err| - 3e-5 = {:.3e} >= {budget:e})", w.err),
                                    J::obj().set("kind", "curve").set("transfer", format!("{t:?}")).set("dir", 0).set("x_bits", x.to_bits()).set("context", format!("primaries {p:?}")),
                                );
                            }
                        }
                    }
                }
                // everything as ONE image of more than 2^20 pixels, with exact 0.0 / 1.0 sprinkled through it
                if !lite || ctx.flag("big") {
                    let mut big: Vec<f32> = (0..total).step_by(if matches!(inputs, Inputs::All) { 251 } else { 1 }).map(|i| inputs.get(i)).collect();
                    while big.len() < 3 * ((1 << 20) + 7) {
                        let l = big.len();
                        big.extend_from_within(..l.min(3 * ((1 << 20) + 7) - l));
                    }
                    for (k, v) in big.iter_mut().enumerate() {
                        if k % 997 == 500 {
                            *v = if (k / 997) % 2 == 0 { 0.0 } else { 1.0 };
                        }
                    }
                    while big.len() % 3 != 0 {
                        big.push(0.5);
                    }
                    extra_evals += big.len() as u64;
                    check_image(big.chunks(3).map(|c| [c[0], c[1], c[2]]).collect(), "one-big-image");
                }
                // tiny images
                for img in tiny.chunks(15) {
                    if img.len() == 15 {
                        extra_evals += 15;
                        check_image(img.chunks(3).map(|c| [c[0], c[1], c[2]]).collect(), "five-pixel-image");
                    }
                }
            }
        }
    }
    ev::observe("chained_and_tiny_image_component_checks", extra_evals);
    ev::add_evals(extra_evals);
    let g = worst.lock().unwrap();
    let mut table = Vec::new();
    let mut ncurves = 0u64;
    for (ti, t) in TRANSFERS.iter().copied().enumerate() {
        if only_t.is_some_and(|o| o != t) {
            continue;
        }
        for dir in 0..ndir {
            ncurves += 1;
            let w = g[ti * 2 + dir];
            let budget = if roundtrip { budget_c10(t) } else { budget_c03(t, dir) };
            let dname = if roundtrip { "gamma->linear->gamma" } else if dir == 0 { "to_linear" } else { "to_gamma" };
            let mut row = J::obj().set("transfer", format!("{t:?}")).set("dir", dname).set("worst_abs_err", w.err).set("budget", budget);
            if let Some((x, got, want)) = w.at {
                row.put("argmax", J::obj().set("x", x).set("x_bits", format!("{:#010x}", x.to_bits())).set("got", got).set("want", want));
            }
            if !roundtrip {
                row.put("inputs_per_segment", vec![segs[(ti * 2 + dir) * 2].load(Relaxed), segs[(ti * 2 + dir) * 2 + 1].load(Relaxed)]);
            }
            table.push(row);
            if !(w.err < budget) {
                let (x, got, want) = w.at.unwrap_or((f32::NAN, f32::NAN, f64::NAN));
                ev::violation(
                    format!("{prop}|curve|{t:?}|{dname}"),
                    format!("x={x:e} ({:#010x}): got {got:e}, want {want:e}, |err| {:.3e} >= {budget:e}", x.to_bits(), w.err),
                    J::obj().set("kind", if roundtrip { "roundtrip" } else { "curve" }).set("transfer", format!("{t:?}")).set("dir", dir).set("x_bits", x.to_bits()),
                );
            }
        }
    }
    ev::add_evals(total * ncurves);
    // Linear is the identity and therefore trivial
    let nontrivial_curves = ncurves.saturating_sub(if only_t.is_none() { ndir as u64 } else { 0 });
    ev::add_nontrivial(total * nontrivial_curves);
    ev::observe("distinct_f32_inputs", total);
    ev::observe("curve_directions", ncurves);
    ev::observe("budget_regime", if exact_build() && !roundtrip && !PROPERTY_BUDGETS.load(std::sync::atomic::Ordering::Relaxed) { "exact-math build: 5e-5" } else { "property budgets" });
    ev::observe("linear_bit_inexact_pixels", linear_inexact.load(Relaxed));
    ev::observe("alias_mismatch_chunks", alias_mismatch.load(Relaxed));
    for r in table.iter().take(4) {
        ev::sample(r.clone());
    }
    ev::observe("per_curve", J::Arr(table));
    let exh = matches!(inputs, Inputs::All) && only_t.is_none();
    ev::exhaustive(exh);
    ev::rule(if exh {
        "all 1,065,353,217 f32 in [0,1] x 14 transfer characteristics x directions, packed three per pixel into images of 87,383 pixels (odd, so vectorised tails are exercised) and \
         pushed through LinearRgb::try_from(Rgb{t,BT709}) / Rgb::try_from((LinearRgb,t,BT709)); distinct by enumeration; the Linear curve is counted as trivial"
    } else {
        "every stride-th f32 bit pattern in [0,1] with a seed-dependent phase, plus all floats within +-2^12 ulp of every curve branch point, +-64 ulp around every power of two, \
         the 256 smallest subnormals and normals; x 14 transfer characteristics x directions; sorted and de-duplicated, so distinct by construction; the Linear curve is counted as trivial"
    });
}

pub fn replay(mon: &str, case: &J) -> bool {
    let Some(t) = case.get("transfer").and_then(J::as_str).and_then(tc_by_name) else { return false };
    let Some(dir) = case.get("dir").and_then(J::as_u64) else { return false };
    let Some(xb) = case.get("x_bits").and_then(J::as_u64) else { return false };
    let x = f32::from_bits(xb as u32);
    let dir = dir as usize;
    let inp = vec![[x, x, x]];
    ev::add_evals(1);
    if mon == "C10" || case.get("kind").and_then(J::as_str) == Some("roundtrip") {
        let back = lin_of(t, inp).and_then(|l| gam_of(t, l));
        match back {
            Ok(b) => {
                let e = (b[0][0] as f64 - x as f64).abs();
                ev::observe("replay", J::obj().set("x", x).set("back", b[0][0]).set("abs_err", e).set("budget", budget_c10(t)));
                if !(e < budget_c10(t)) {
                    ev::violation("C10|replay", format!("x={x:e} back={:e} err={e:.3e}", b[0][0]), case.clone());
                }
            }
            Err(e) => ev::violation("C10|replay", e, case.clone()),
        }
        return true;
    }
    let out = if dir == 0 { lin_of(t, inp) } else { gam_of(t, inp) };
    match out {
        Ok(o) => {
            let want = model(t, dir, x as f64);
            let e = (o[0][0] as f64 - want).abs();
            ev::observe("replay", J::obj().set("x", x).set("got", o[0][0]).set("want", want).set("abs_err", e).set("budget", budget_c03(t, dir)));
            if !(e < budget_c03(t, dir)) || (t == TC::Linear && o[0][0].to_bits() != x.to_bits()) {
                ev::violation("C03|replay", format!("x={x:e} got={:e} want={want:e} err={e:.3e}", o[0][0]), case.clone());
            }
            if matches!(t, TC::ST170M | TC::ST240M | TC::BT2020Ten | TC::BT2020Twelve) {
                let base = if dir == 0 { lin_of(TC::BT1886, vec![[x, x, x]]) } else { gam_of(TC::BT1886, vec![[x, x, x]]) };
                if let Ok(b) = base {
                    if b[0][0].to_bits() != o[0][0].to_bits() {
                        ev::violation("C03|replay-alias", format!("{t:?} {:e} vs BT1886 {:e}", o[0][0], b[0][0]), case.clone());
                    }
                }
            }
        }
        Err(e) => ev::violation("C03|replay", e, case.clone()),
    }
    true
}
