//! yvmon — runtime monitors for rust-av/yuvxyb. One process = one monitor run:
//! `yvmon <MONITOR> --tier quick|thorough --seed N --build NAME --out FILE [--key value ...]`
//! It always exits 0 after writing FILE (the driver judges); exit 3 = usage error.
#![allow(clippy::needless_range_loop)]
mod ev;
mod frames;
mod gen;
mod json;
mod oracle;
mod util;

mod mon_build;
mod mon_cold;
mod mon_color;
mod mon_ctor;
mod mon_hsl;
mod mon_math;
mod mon_meta;
mod mon_pointwise;
mod mon_safety;
mod mon_transfer;
mod mon_xyb;
mod mon_yuv;

use json::J;
use std::collections::HashMap;

#[derive(Clone, Copy, PartialEq, Eq, Debug)]
pub enum Tier {
    Quick,
    Thorough,
}

pub struct Ctx {
    pub monitor: String,
    pub tier: Tier,
    pub seed: u64,
    pub build: String,
    pub out: Option<String>,
    pub args: HashMap<String, String>,
}
impl Ctx {
    pub fn pick<T>(&self, quick: T, thorough: T) -> T {
        if self.tier == Tier::Quick {
            quick
        } else {
            thorough
        }
    }
    pub fn arg_u64(&self, k: &str) -> Option<u64> {
        self.args.get(k).and_then(|s| s.parse().ok())
    }
    pub fn arg(&self, k: &str) -> Option<&str> {
        self.args.get(k).map(String::as_str)
    }
    pub fn flag(&self, k: &str) -> bool {
        self.args.contains_key(k)
    }
}

fn usage() -> ! {
    eprintln!("usage: yvmon <MONITOR> --tier quick|thorough --seed N --build NAME --out FILE [--key value]");
    std::process::exit(3);
}

/// With the `misalign` feature every allocation whose layout asks for at most 8-byte alignment is placed at an
/// address that is 8 modulo 16. System allocators on 64-bit glibc always return 16-byte aligned blocks, so code that
/// silently relies on that is never exercised there.
#[cfg(feature = "misalign")]
mod misalign {
    use std::alloc::{GlobalAlloc, Layout, System};
    pub struct Off8;
    unsafe impl GlobalAlloc for Off8 {
        unsafe fn alloc(&self, l: Layout) -> *mut u8 {
            if l.align() > 8 {
                return System.alloc(l);
            }
            let Ok(big) = Layout::from_size_align(l.size() + 16, 16) else { return std::ptr::null_mut() };
            let p = System.alloc(big);
            if p.is_null() {
                p
            } else {
                p.add(8)
            }
        }
        unsafe fn dealloc(&self, p: *mut u8, l: Layout) {
            if l.align() > 8 {
                return System.dealloc(p, l);
            }
            System.dealloc(p.sub(8), Layout::from_size_align_unchecked(l.size() + 16, 16));
        }
    }
    #[global_allocator]
    static A: Off8 = Off8;
}

pub static LOG_RECORDS: std::sync::atomic::AtomicU64 = std::sync::atomic::AtomicU64::new(0);
struct CountingLogger;
impl log::Log for CountingLogger {
    fn enabled(&self, _: &log::Metadata) -> bool {
        true
    }
    fn log(&self, r: &log::Record) {
        // format the record (as a real sink would) and drop it
        let _ = std::hint::black_box(format!("{}", r.args()).len());
        LOG_RECORDS.fetch_add(1, std::sync::atomic::Ordering::Relaxed);
    }
    fn flush(&self) {}
}

fn main() {
    let argv: Vec<String> = std::env::args().collect();
    if argv.len() < 2 {
        usage();
    }
    let monitor = argv[1].clone();
    let mut args = HashMap::new();
    let mut i = 2;
    while i < argv.len() {
        let k = argv[i].trim_start_matches("--").to_string();
        if i + 1 < argv.len() && !argv[i + 1].starts_with("--") {
            args.insert(k, argv[i + 1].clone());
            i += 2;
        } else {
            args.insert(k, "1".to_string());
            i += 1;
        }
    }
    let tier = match args.get("tier").map(String::as_str) {
        Some("thorough") => Tier::Thorough,
        _ => Tier::Quick,
    };
    let ctx = Ctx {
        monitor: monitor.clone(),
        tier,
        seed: args.get("seed").and_then(|s| s.parse().ok()).unwrap_or(0),
        build: args.get("build").cloned().unwrap_or_else(|| "rel".into()),
        out: args.get("out").cloned(),
        args,
    };
    {
        use yuvxyb_math::verif as vh;
        vh::set_mode(if ctx.arg("hook-mode") == Some("record") { vh::Mode::Record } else { vh::Mode::Trap });
    }
    if monitor == "COLDCHILD" {
        mon_cold::child(&ctx);
    }
    // results must not depend on whether the host application listens to the library's log output:
    // `--log-level trace` installs a logger that accepts (and counts) everything
    if let Some(level) = ctx.arg("log-level") {
        static LOGGER: CountingLogger = CountingLogger;
        let _ = log::set_logger(&LOGGER);
        log::set_max_level(match level {
            "trace" => log::LevelFilter::Trace,
            "debug" => log::LevelFilter::Debug,
            "info" => log::LevelFilter::Info,
            "warn" => log::LevelFilter::Warn,
            _ => log::LevelFilter::Error,
        });
    }
    if ctx.flag("property-budgets") {
        mon_transfer::PROPERTY_BUDGETS.store(true, std::sync::atomic::Ordering::Relaxed);
    }
    ev::init();
    ev::install_panic_hook();
    if let Some(level) = ctx.arg("log-level") {
        ev::observe("log_level_of_installed_logger", level);
    }
    ev::observe("cpus_offered_to_this_process", std::thread::available_parallelism().map_or(0, |n| n.get()));
    ev::observe("allocator", if cfg!(feature = "misalign") { "blocks aligned to 8 but never to 16 bytes" } else { "system" });
    let t0 = std::time::Instant::now();

    // a panic that escapes a monitor's own guards: a library (or hook) site is a violation of the property being
    // monitored (no conversion may panic on the inputs the monitors build); a harness site is a harness error
    let known = ev::guarded(|| match monitor.as_str() {
        "C01" => mon_yuv::c01(&ctx),
        "C02" => mon_yuv::c02(&ctx),
        "C08" => mon_yuv::c08(&ctx),
        "C16" => mon_yuv::c16(&ctx),
        "C03" => mon_transfer::c03(&ctx),
        "C10" => mon_transfer::c10(&ctx),
        "C04" => mon_xyb::c04(&ctx),
        "C05" => mon_xyb::c05(&ctx),
        "C09" => mon_xyb::c09(&ctx),
        "C06" => mon_color::c06(&ctx),
        "C19" => mon_color::c19(&ctx),
        "C17" => mon_hsl::c17(&ctx),
        "C18" => mon_math::c18(&ctx),
        "C11" => mon_pointwise::c11(&ctx),
        "C12" => mon_ctor::c12(&ctx),
        "C14" => mon_meta::c14(&ctx),
        "C15" => mon_meta::c15(&ctx),
        "C07" => mon_safety::c07(&ctx),
        "C13" => mon_safety::c13(&ctx),
        "COLD" => mon_cold::cold(&ctx),
        "C20probe" => mon_build::probe(&ctx),
        "C20dump" => mon_build::dump(&ctx),
        "replay" => replay(&ctx),
        _ => usage(),
    });
    if let Err(msg) = known {
        if msg.contains("/harness/src/") {
            ev::inconclusive(&format!("the harness panicked: {msg}"));
        } else {
            let prop = if monitor.len() == 3 && monitor.starts_with('C') { monitor.clone() } else { ctx.arg("prop").unwrap_or("C13").to_string() };
            ev::violation(format!("{prop}|panic|escaped|{}", ev::panic_site(&msg)), format!("the library panicked outside every guarded call of monitor {monitor}: {msg}"), J::obj().set("kind", "escaped-panic"));
        }
    }

    let wall = t0.elapsed().as_secs_f64();
    let hooks = ev::hooks_json();
    let hook_log: Vec<J> = yuvxyb_math::verif::take_violations()
        .into_iter()
        .take(16)
        .map(|v| J::obj().set("site", yuvxyb_math::verif::SITE_NAMES[v.site]).set("a", v.a).set("b", v.b))
        .collect();
    if ctx.arg("log-level").is_some() {
        ev::observe("log_records_received_by_installed_logger", LOG_RECORDS.load(std::sync::atomic::Ordering::Relaxed));
    }
    let out = ev::with(|r| {
        let mut o = J::obj()
            .set("monitor", ctx.monitor.as_str())
            .set("tier", if ctx.tier == Tier::Quick { "quick" } else { "thorough" })
            .set("seed", ctx.seed)
            .set("build", ctx.build.as_str())
            .set("fastmath_feature", cfg!(feature = "fastmath"))
            .set("fma_target_feature", cfg!(target_feature = "fma"))
            .set("debug_assertions", cfg!(debug_assertions))
            .set("log_records_received", LOG_RECORDS.load(std::sync::atomic::Ordering::Relaxed))
            .set("evaluations", r.evaluations)
            .set("nontrivial_direct", r.nontrivial_direct)
            .set("rule", r.rule.as_str())
            .set("samples", J::Arr(r.samples.clone()))
            .set("observed", J::Obj(r.observed.clone()))
            .set("hooks", hooks.clone())
            .set("hook_violation_log", J::Arr(hook_log.clone()))
            .set("violation_count", r.viol_by_sig.values().sum::<u64>())
            .set(
                "violations_by_signature",
                J::Obj(r.viol_by_sig.iter().map(|(k, v)| (k.clone(), J::from(*v))).collect()),
            )
            .set(
                "violations",
                J::Arr(
                    r.viols
                        .iter()
                        .map(|v| J::obj().set("sig", v.sig.as_str()).set("detail", v.detail.as_str()).set("case", v.case.clone()))
                        .collect(),
                ),
            )
            .set("notes", J::Arr(r.notes.iter().map(|s| J::from(s.as_str())).collect()))
            .set("wall_s", wall);
        if let Some(e) = r.exhaustive {
            o.put("exhaustive", e);
        }
        o.put("inconclusive", r.inconclusive.clone());
        o
    });
    let text = out.to_string();
    match &ctx.out {
        Some(p) => std::fs::write(p, &text).expect("write result file"),
        None => println!("{text}"),
    }
    eprintln!(
        "yvmon {} [{}] tier={:?} seed={} evals={} violations={} wall={:.1}s",
        ctx.monitor,
        ctx.build,
        ctx.tier,
        ctx.seed,
        ev::with(|r| r.evaluations),
        ev::violation_count(),
        wall
    );
}

/// `yvmon replay --file <replay.json>`: re-executes exactly the recorded case.
fn replay(ctx: &Ctx) {
    let path = ctx.arg("file").unwrap_or_else(|| usage());
    let text = std::fs::read_to_string(path).expect("read replay file");
    let j = json::parse(&text).expect("parse replay file");
    let mon = j.get("monitor").and_then(J::as_str).unwrap_or("").to_string();
    let case = j.get("case").cloned().unwrap_or(J::Null);
    if mon_cold::replay(&case) {
        return;
    }
    let ok = match mon.as_str() {
        "C01" | "C08" | "C16" | "C02" => mon_yuv::replay(&mon, &case),
        "C03" | "C10" => mon_transfer::replay(&mon, &case),
        "C04" | "C05" | "C09" => mon_xyb::replay(&mon, &case),
        "C06" | "C19" => mon_color::replay(&mon, &case),
        "C17" => mon_hsl::replay(&case),
        "C18" => mon_math::replay(&case),
        "C07" | "C13" => mon_safety::replay(&mon, &case),
        "C12" => mon_ctor::replay(&case),
        "C14" | "C15" => mon_meta::replay(&mon, &case),
        "C11" => mon_pointwise::replay(&case),
        _ => false,
    };
    if !ok {
        ev::note(format!("replay: monitor {mon} has no single-case replay for this case; re-run the check with the same tier and seed"));
        ev::inconclusive("no single-case replay");
    }
}
