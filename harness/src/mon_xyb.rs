//! C04 (linear RGB -> XYB vs libjxl opsin definition), C05 (XYB round trip),
//! C09 (YUV -> XYB -> YUV within the code budget).
use crate::ev::{self, Distinct, Worst};
use crate::gen::{hash_mix, hash_px, Rng};
use crate::json::J;
use crate::oracle::*;
use crate::util::*;
use crate::Ctx;
use std::sync::atomic::{AtomicU64, Ordering::Relaxed};
use std::sync::Mutex;
use yuvxyb::*;

const TOL_C04: f64 = 2e-6;
const TOL_C05: f64 = 5e-5;
const STRATA: [&str; 8] = ["uniform[0,4]^3", "near-black(log-uniform)", "unit-cube", "well-conditioned-negative", "axis/face", "exact-0-and-4", "grid{i/15}^3", "bit-pattern-uniform[0,1]"];

fn gen_px(rng: &mut Rng, kind: u64, idx: u64) -> [f32; 3] {
    match kind {
        0 => [rng.range(0.0, 4.0) as f32, rng.range(0.0, 4.0) as f32, rng.range(0.0, 4.0) as f32],
        1 => {
            let s = 10f64.powf(-rng.unit() * 8.0);
            [(rng.unit() * s) as f32, (rng.unit() * s) as f32, (rng.unit() * s) as f32]
        }
        2 => {
            if idx % 32 == 2 {
                crate::gen::related_px(rng, if idx % 64 == 2 { 1.0 } else { 4.0 })
            } else if idx % 32 == 10 {
                // two cone responses (nearly or exactly) equal: blue solved from red and green on the plane where
                // rows i and j of the opsin matrix agree, then moved by a few ulps
                let (r, g) = (rng.unit(), rng.unit());
                let (i, j) = [(0usize, 2usize), (1, 2), (0, 1)][rng.below(3) as usize];
                let d = [OPSIN[i][0] - OPSIN[j][0], OPSIN[i][1] - OPSIN[j][1], OPSIN[i][2] - OPSIN[j][2]];
                if d[2].abs() < 1e-9 {
                    [r as f32, r as f32, rng.unit() as f32] // L == M exactly when r == g
                } else {
                    let b = -(d[0] * r + d[1] * g) / d[2];
                    if (0.0..=1.0).contains(&b) {
                        [r as f32, g as f32, crate::gen::nudge(b as f32, rng.below(7) as i64 - 3)]
                    } else {
                        [r as f32, g as f32, rng.unit() as f32]
                    }
                }
            } else {
                [rng.unit() as f32, rng.unit() as f32, rng.unit() as f32]
            }
        }
        3 => [rng.range(-1.0, 4.0) as f32, rng.range(-1.0, 4.0) as f32, rng.range(-1.0, 4.0) as f32],
        4 => {
            let mut p = [0f32; 3];
            let hi = if rng.coin() { 4.0 } else { 1.0 };
            match rng.below(3) {
                0 => p[rng.below(3) as usize] = rng.range(0.0, hi) as f32,
                1 => {
                    let k = rng.below(3) as usize;
                    for c in 0..3 {
                        if c != k {
                            p[c] = rng.range(0.0, hi) as f32;
                        }
                    }
                }
                _ => {
                    let k = rng.below(3) as usize;
                    for c in 0..3 {
                        p[c] = if c == k { hi as f32 } else { rng.range(0.0, hi) as f32 };
                    }
                }
            }
            p
        }
        5 => match idx % 3 {
            0 => {
                let v = [0.0f32, 4.0, 1.0, -0.0];
                [rng.pick(&v), rng.pick(&v), rng.pick(&v)]
            }
            1 => {
                // exact greys over the whole domain, negative ones included
                let g = if rng.coin() { rng.range(-1.0, 4.0) } else { rng.range(-0.1, 0.1) } as f32;
                [g, g, g]
            }
            _ => {
                let g = rng.range(0.0, 4.0);
                let s = 10f64.powf(-2.0 - 6.0 * rng.unit());
                [g as f32, (g + (rng.unit() - 0.5) * s).max(0.0) as f32, (g + (rng.unit() - 0.5) * s).max(0.0) as f32]
            }
        },
        6 => {
            let i = idx % 4096;
            [(i & 15) as f32 / 15.0, ((i >> 4) & 15) as f32 / 15.0, ((i >> 8) & 15) as f32 / 15.0]
        }
        _ => [rng.unit_bits(), rng.unit_bits(), rng.unit_bits()],
    }
}

/// input class of a linear pixel for violation signatures
fn xyb_class(p: [f32; 3]) -> &'static str {
    let mx = p[0].max(p[1]).max(p[2]);
    if p.iter().any(|v| *v < 0.0) {
        "negative-component"
    } else if p[0] == p[1] && p[1] == p[2] {
        "exact-grey"
    } else if mx < 1e-3 {
        "near-black"
    } else if (p[0] - p[1]).abs() < 1e-3 * mx && (p[1] - p[2]).abs() < 1e-3 * mx {
        "near-grey"
    } else if mx > 1.0 {
        "hdr(>1)"
    } else {
        "unit-cube"
    }
}

fn in_c04_domain(p: [f32; 3]) -> bool {
    if !p.iter().all(|v| *v >= -1.0 && *v <= 4.0) {
        return false;
    }
    if p.iter().all(|v| *v >= 0.0) {
        return true;
    }
    let m = opsin_mix(px64(p));
    m.iter().all(|v| *v <= -1e-3 || *v >= 0.05)
}
fn in_unit(p: [f32; 3]) -> bool {
    p.iter().all(|v| (0.0..=1.0).contains(v))
}

fn xyb_of(px: Vec<[f32; 3]>, w: usize, h: usize) -> Result<Xyb, String> {
    let l = LinearRgb::new(px, w, h).map_err(|e| format!("{e:?}"))?;
    Ok(Xyb::from(l))
}

/// shape an n-pixel vector as w x h with w*h == n (varies so that width/height plumbing is exercised)
fn shape(n: usize, r: u64) -> (usize, usize) {
    for d in [1usize, 3, 7, 5, 11] {
        if r as usize % 5 == [1usize, 3, 7, 5, 11].iter().position(|x| *x == d).unwrap() && n % d == 0 {
            return (n / d, d);
        }
    }
    (n, 1)
}

fn run_xyb(ctx: &Ctx, roundtrip: bool) {
    let prop = if roundtrip { "C05" } else { "C04" };
    let total: u64 = ctx.arg_u64("pixels").unwrap_or(if ctx.flag("lite") { 1 << 21 } else { ctx.pick(1 << 27, 1 << 32) });
    let distinct = Distinct::new(ctx.pick(29, 33));
    let worst = Mutex::new(Worst::<([f32; 3], usize, f32, f64)>::new());
    let per_stratum: Vec<AtomicU64> = (0..8).map(|_| AtomicU64::new(0)).collect();
    let clamped = AtomicU64::new(0);
    let skipped = AtomicU64::new(0);
    let checked = AtomicU64::new(0);
    let dims_bad = AtomicU64::new(0);
    let chunk: u64 = 65_519; // prime
    ev::par_ranges(prop, total, chunk, |_w, a, b| {
        let mut rng = Rng::new(ctx.seed, 0x0C04_0000 + a / chunk);
        let mut px = Vec::with_capacity((b - a) as usize);
        let mut kinds = Vec::with_capacity((b - a) as usize);
        for i in a..b {
            let kind = if roundtrip { [2u64, 1, 6, 7, 4, 2, 7, 5][(i % 8) as usize] } else { i % 8 };
            let mut p = gen_px(&mut rng, kind, i);
            if roundtrip && !in_unit(p) {
                for c in p.iter_mut() {
                    *c = c.clamp(0.0, 1.0);
                }
            }
            if !roundtrip && !in_c04_domain(p) {
                skipped.fetch_add(1, Relaxed);
                continue;
            }
            px.push(p);
            kinds.push(kind as usize);
        }
        if px.is_empty() {
            return;
        }
        let process = |px: &[[f32; 3]], kinds: &[usize], count: bool, explicit: Option<(usize, usize)>| {
        let n = px.len();
        let (w, h) = explicit.unwrap_or_else(|| shape(n, a / chunk));
        let x = match xyb_of(px.to_vec(), w, h) {
            Ok(x) => x,
            Err(e) => {
                ev::violation(format!("{prop}|ctor"), e, J::Null);
                return;
            }
        };
        if x.width() != w || x.height() != h || x.data().len() != n {
            if dims_bad.fetch_add(1, Relaxed) == 0 {
                ev::violation(format!("{prop}|dims|forward"), format!("{w}x{h} in, {}x{} ({} px) out", x.width(), x.height(), x.data().len()), J::obj().set("kind", "dims").set("w", w).set("h", h));
            }
            return;
        }
        let mut loc = Worst::new();
        let mut ncl = 0u64;
        if !roundtrip {
            for i in 0..n {
                let p = px[i];
                if !in_c04_domain(p) {
                    continue; // a hostile companion, not a subject
                }
                let want = lrgb_to_xyb(px64(p));
                let got = x.data()[i];
                for c in 0..3 {
                    loc.upd((got[c] as f64 - want[c]).abs(), (p, c, got[c], want[c]));
                }
                if opsin_mix(px64(p)).iter().any(|v| *v < 0.0) {
                    ncl += 1;
                }
                if count {
                    per_stratum[kinds[i]].fetch_add(1, Relaxed);
                    distinct.insert(hash_px(p));
                }
            }
        } else {
            let back = LinearRgb::from(x);
            if back.width() != w || back.height() != h || back.data().len() != n {
                if dims_bad.fetch_add(1, Relaxed) == 0 {
                    ev::violation("C05|dims|inverse", format!("{w}x{h} in, {}x{} out", back.width(), back.height()), J::obj().set("kind", "dims").set("w", w).set("h", h));
                }
                return;
            }
            for i in 0..n {
                let p = px[i];
                if !in_unit(p) {
                    continue; // a hostile companion, not a subject
                }
                let got = back.data()[i];
                for c in 0..3 {
                    loc.upd((got[c] as f64 - p[c] as f64).abs(), (p, c, got[c], p[c] as f64));
                }
                if count {
                    per_stratum[kinds[i]].fetch_add(1, Relaxed);
                    distinct.insert(hash_px(p));
                }
            }
        }
        if count {
            clamped.fetch_add(ncl, Relaxed);
        }
        checked.fetch_add(n as u64, Relaxed);
        worst.lock().unwrap().merge(&loc);
        };
        process(&px, &kinds, true, None);
        // the same pixels in other contexts (judged by the same per-pixel rule): reversed with every pixel doubled,
        // and as many tiny images of 1..7 pixels
        let ck = a / chunk;
        if ck % 3 == 1 {
            let m = px.len().min(8192);
            let mut v = Vec::with_capacity(2 * m);
            let mut k = Vec::with_capacity(2 * m);
            for i in (0..m).rev() {
                v.push(px[i]);
                v.push(px[i]);
                k.push(kinds[i]);
                k.push(kinds[i]);
            }
            process(&v, &k, false, None);
            // long runs of pixels of one stratum (hundreds of consecutive near-black / out-of-gamut / grey pixels): state
            // that builds up from pixel to pixel needs a run to become visible
            {
                let m = px.len().min(16384);
                let mut order: Vec<usize> = (0..m).collect();
                order.sort_by_key(|i| kinds[*i]);
                let v: Vec<[f32; 3]> = order.iter().map(|i| px[*i]).collect();
                let k: Vec<usize> = order.iter().map(|i| kinds[*i]).collect();
                process(&v, &k, false, None);
            }
            // letterboxed: whole rows of black above and between the rows of subjects, none below
            let m = px.len().min(6000);
            let wrow = [61usize, 64, 17][(ck / 3 % 3) as usize];
            let (v, idx, h) = letterbox(&px[..m], wrow, [0.0; 3]);
            let k: Vec<usize> = idx.iter().map(|i| if *i == usize::MAX { 0 } else { kinds[*i] }).collect();
            process(&v, &k, false, Some((wrow, h)));
        } else if ck % 3 == 2 {
            let mut i = 0usize;
            let mut len = 1usize;
            while i + len <= px.len().min(2048) {
                process(&px[i..i + len], &kinds[i..i + len], false, None);
                i += len;
                len = len % 7 + 1;
            }
        } else {
            // the same pixels with hostile companions around them (NaN, +-inf, huge, negative): only the in-domain ones are judged
            let hostile = [[f32::NAN; 3], [f32::INFINITY, 0.5, 0.5], [0.5, f32::NEG_INFINITY, 3e38], [-1.0, -1.0, -1.0], [f32::NAN, 0.0, 1.0], [1e30, 1e30, 1e30]];
            let m = px.len().min(6000);
            let mut v = Vec::with_capacity(m + m / 3 + 1);
            let mut k = Vec::with_capacity(m + m / 3 + 1);
            for i in 0..m {
                v.push(px[i]);
                k.push(kinds[i]);
                if i % 3 == (ck % 3) as usize {
                    v.push(hostile[(i / 3) % hostile.len()]);
                    k.push(kinds[i]);
                }
            }
            process(&v, &k, false, None);
        }
    });
    // single images of more than 2^20 and more than 2^24 pixels (where pixel counts stop being exact in f32;
    // thorough: also more than 2^25), judged at their first and last pixels and at random positions
    let big_sizes: &[usize] = if ctx.flag("lite") && ctx.flag("big") { &[(1 << 20) + 13] } else if ctx.flag("lite") { &[] } else if ctx.tier == crate::Tier::Thorough { &[(1 << 20) + 13, 4129 * 4129, (1 << 25) + 5] } else { &[(1 << 20) + 13, 4129 * 4129] };
    for &n in big_sizes {
        let mut rng = Rng::new(ctx.seed, 0xB16_C04 + n as u64);
        let big: Vec<[f32; 3]> = (0..n as u64).map(|i| gen_px(&mut rng, [2u64, 1, 6, 7, 4, 2, 7, 5][(i % 8) as usize], i).map(|c| if roundtrip { c.clamp(0.0, 1.0) } else { c.clamp(0.0, 4.0) })).collect();
        if let Ok(x) = xyb_of(big.clone(), n, 1) {
            let out: Vec<[f32; 3]> = if roundtrip { LinearRgb::from(x).into_data() } else { x.into_data() };
            let mut idx: Vec<usize> = (0..64).chain(n - 64..n).collect();
            for _ in 0..8192 {
                idx.push(rng.below(n as u64) as usize);
            }
            let mut w = Worst::new();
            if out.len() == n {
                for i in idx {
                    let p = big[i];
                    let want = if roundtrip { px64(p) } else { lrgb_to_xyb(px64(p)) };
                    for c in 0..3 {
                        w.upd((out[i][c] as f64 - want[c]).abs(), (p, c, out[i][c], want[c]));
                    }
                }
            } else {
                w.upd(f64::NAN, ([0.0; 3], 0, 0.0, 0.0));
            }
            checked.fetch_add(8320, Relaxed);
            ev::observe(&format!("big_image_of_{n}_pixels_checked_positions"), 8320);
            let tol = if roundtrip { TOL_C05 } else { TOL_C04 };
            if !(w.err <= tol) {
                if let Some((p, c, got, want)) = w.at {
                    ev::violation(
                        format!("{prop}|big-image"),
                        format!("in one {n}-pixel image, pixel {p:?} component {c}: got {got:e}, want {want:e}"),
                        J::obj().set("kind", "big-image").set("pixels", n).set("pixel", px_json(p)),
                    );
                }
            }
        }
    }
    let w = worst.lock().unwrap();
    let tol = if roundtrip { TOL_C05 } else { TOL_C04 };
    ev::observe("worst_abs_err", w.err);
    ev::observe("tolerance", tol);
    if let Some((p, c, got, want)) = w.at {
        let j = J::obj().set("kind", if roundtrip { "xyb-roundtrip" } else { "xyb-forward" }).set("pixel", px_json(p)).set("component", c).set("got", got).set("want", want);
        ev::observe("argmax", j.clone());
        ev::sample(j.clone());
        if !(w.err <= tol) {
            ev::violation(
                format!("{prop}|{}|{}", if roundtrip { "roundtrip" } else { "forward" }, xyb_class(p)),
                format!("pixel {p:?} component {c}: got {got:e}, want {want:e}, |err| {:.3e} > {tol:e}", w.err),
                j,
            );
        }
    }
    let mut st = J::obj();
    for (i, s) in STRATA.iter().enumerate() {
        st.put(s, per_stratum[i].load(Relaxed));
    }
    ev::observe("pixels_per_stratum", st);
    ev::observe("pixels_with_a_clamped_opsin_mix", clamped.load(Relaxed));
    ev::observe("generated_but_outside_the_property_domain", skipped.load(Relaxed));
    ev::add_evals(checked.load(Relaxed));
    ev::add_nontrivial(distinct.count());
    ev::exhaustive(false);
    ev::rule(if roundtrip {
        "linear pixels of [0,1]^3 from strata: uniform, log-uniform near black, {i/15}^3 grid, uniform over f32 bit patterns, axes/faces, exact 0/1; images of 65,519 pixels (prime; reshaped to heights 1,3,5,7,11 when divisible); \
         LinearRgb::from(Xyb::from(p)) compared with p; distinct = hash bitset over pixel bits (lower bound)"
    } else {
        "linear pixels from 8 strata ([0,4]^3 uniform, log-uniform near black 1e-8..1, unit cube, [-1,4]^3 kept only if the property's conditioning clause holds (f64 model), axes/faces, exact 0/4/-0, grid, bit-pattern-uniform); \
         images of <=65,519 pixels (prime) so vector tails are exercised; Xyb::from(LinearRgb) vs the f64 opsin model; distinct = hash bitset over pixel bits (lower bound)"
    });
}

pub fn c04(ctx: &Ctx) {
    run_xyb(ctx, false);
}
pub fn c05(ctx: &Ctx) {
    run_xyb(ctx, true);
}

// ------------------------------------------------------------------ C09
pub const SUBSAMPLINGS: [(u8, u8); 6] = [(0, 0), (1, 0), (1, 1), (0, 1), (2, 0), (2, 2)];

pub fn budget_codes(n: u8) -> f64 {
    (0.015 * ((1u64 << n) - 1) as f64).max(1.0)
}

fn c09_colors(rng: &mut Rng, count: usize, n: u8) -> Vec<[f32; 3]> {
    let mut px = Vec::with_capacity(count + 80);
    for i in 0..=32 {
        let g = i as f32 / 32.0;
        px.push([g, g, g]);
    }
    // dark greys: the first codes of this depth and the first 8-bit steps (where steep curves meet "black" shortcuts)
    let maxv = ((1u32 << n) - 1) as f32;
    for k in 1..=16 {
        px.push([k as f32 / maxv; 3]);
        px.push([k as f32 / 255.0; 3]);
    }
    for c in 0..8 {
        px.push([(c & 1) as f32, ((c >> 1) & 1) as f32, ((c >> 2) & 1) as f32]);
    }
    while px.len() < count {
        if px.len() % 3 == 0 {
            let s = 10f64.powf(-rng.unit() * 9.0);
            px.push([(rng.unit() * s) as f32, (rng.unit() * s) as f32, (rng.unit() * s) as f32]);
        } else {
            px.push([rng.unit() as f32, rng.unit() as f32, rng.unit() as f32]);
        }
    }
    px
}

#[derive(Clone, Copy)]
struct C9At {
    cfg: YuvConfig,
    u8s: bool,
    rgb: [f32; 3],
    plane: usize,
    a: u32,
    b: u32,
}

fn c09_one<T: Pixel>(cfg: YuvConfig, colors: &[[f32; 3]], worst: &mut Worst<C9At>) -> u64 {
    c09_shape::<T>(cfg, colors, worst, 13, None)
}

/// `cols` blocks per row (odd); `rows`: block rows (default: as many as the colours need)
fn c09_shape<T: Pixel>(cfg: YuvConfig, colors: &[[f32; 3]], worst: &mut Worst<C9At>, cols: usize, rows: Option<usize>) -> u64 {
    let u8s = std::mem::size_of::<T>() == 1;
    let (ssx, ssy) = (cfg.subsampling_x, cfg.subsampling_y);
    // lay the colours out as blocks so that pixels are constant within each chroma block
    let bw = 1usize << ssx;
    let bh = 1usize << ssy;
    // block -> colour: in order for the standard layout; scattered for the very wide ones, so that blocks 65,536
    // (or one band of rows) apart never carry the same chroma
    let scatter = rows.is_some();
    let ncolors = colors.len();
    let cidx = move |bi: usize| if scatter { (bi * 37 + 11 + bi / 1040) % ncolors } else { bi % ncolors };
    let rows = rows.unwrap_or(((colors.len() + cols - 1) / cols) | 1); // odd too: a 4:4:4 image then has an odd number of pixels
    let (w, h) = (cols * bw, rows * bh);
    let mut px = vec![[0f32; 3]; w * h];
    for y in 0..h {
        for x in 0..w {
            let bi = (y / bh) * cols + x / bw;
            px[y * w + x] = colors[cidx(bi)];
        }
    }
    let case = |what: &str| {
        J::obj().set("kind", "c09").set("cfg", cfg_json(&cfg)).set("u8", u8s).set("what", what).set("rgb", px_json(colors[0]))
    };
    let sigbase = format!("{:?}|{:?}|{:?}", cfg.matrix_coefficients, cfg.transfer_characteristics, cfg.color_primaries);
    let rgb = Rgb::new(px.clone(), w, h, cfg.transfer_characteristics, cfg.color_primaries).expect("len");
    let yuv: Yuv<T> = match Yuv::try_from((&rgb, cfg)) {
        Ok(y) => y,
        Err(e) => {
            ev::violation(format!("C09|encode-error|{sigbase}"), format!("{e:?}"), case("encode"));
            return 0;
        }
    };
    // the image the library encoded has unpadded planes; present the same samples in a frame whose
    // planes are padded differently (other strides and origins per plane) for half of the configurations
    let yuv: Yuv<T> = if (cfg.bit_depth as usize + cfg.matrix_coefficients as usize) % 2 == 0 {
        let pads = [(0usize, 17usize, 0usize), (3, 0, 32), (17, 1, 7)][(cfg.bit_depth % 3) as usize];
        let mut g: Frame<T> = Frame {
            planes: [
                Plane::new(w, h, 0, 0, pads.0, pads.0),
                Plane::new(w >> ssx, h >> ssy, ssx as usize, ssy as usize, pads.1, pads.1),
                Plane::new(w >> ssx, h >> ssy, ssx as usize, ssy as usize, pads.2, pads.2),
            ],
        };
        for pl in 0..3 {
            let (pw, ph) = if pl == 0 { (w, h) } else { (w >> ssx, h >> ssy) };
            let stride = g.planes[pl].cfg.stride;
            let d = g.planes[pl].data_origin_mut();
            for y in 0..ph {
                for xx in 0..pw {
                    d[y * stride + xx] = yuv.data()[pl].p(xx, y);
                }
            }
        }
        match Yuv::new(g, cfg) {
            Ok(y) => y,
            Err(e) => {
                ev::violation(format!("C09|repadded-frame-rejected|{sigbase}"), format!("{e:?}"), case("repad"));
                return 0;
            }
        }
    } else {
        yuv
    };
    // the borrowing and the consuming conversion are two impls: use them alternately (C11 compares them bit for bit)
    let to_xyb = if cfg.bit_depth % 2 == 0 { Xyb::try_from(&yuv) } else { Xyb::try_from(yuv.clone()) };
    let x = match to_xyb {
        Ok(x) => x,
        Err(e) => {
            ev::violation(format!("C09|to-xyb-error|{sigbase}"), format!("supported config failed: {e:?}"), case("to_xyb"));
            return 0;
        }
    };
    if x.width() != w || x.height() != h {
        ev::violation(format!("C09|dims|{sigbase}"), format!("XYB is {}x{}, YUV was {w}x{h}", x.width(), x.height()), case("dims"));
        return 0;
    }
    let back: Yuv<T> = match Yuv::try_from((x, cfg)) {
        Ok(y) => y,
        Err(e) => {
            ev::violation(format!("C09|from-xyb-error|{sigbase}"), format!("supported config failed: {e:?}"), case("from_xyb"));
            return 0;
        }
    };
    if back.config() != cfg || back.width() != w || back.height() != h {
        ev::violation(
            format!("C09|config-or-dims|{sigbase}"),
            format!("round trip returned config {:?} {}x{}, expected {:?} {w}x{h}", back.config(), back.width(), back.height(), cfg),
            case("config"),
        );
        return 0;
    }
    let budget = budget_codes(cfg.bit_depth);
    let mut n = 0u64;
    for pl in 0..3 {
        let (pw, ph, sx, sy) = if pl == 0 { (w, h, 0, 0) } else { (w >> ssx, h >> ssy, ssx, ssy) };
        if back.data()[pl].cfg.width != pw || back.data()[pl].cfg.height != ph {
            ev::violation(format!("C09|plane-dims|{sigbase}"), format!("plane {pl} is {}x{}", back.data()[pl].cfg.width, back.data()[pl].cfg.height), case("plane-dims"));
            return n;
        }
        for y in 0..ph {
            for xx in 0..pw {
                let a = u32::cast_from(yuv.data()[pl].p(xx, y));
                let b = u32::cast_from(back.data()[pl].p(xx, y));
                let e = (a as f64 - b as f64).abs() / budget;
                let bi = ((y << sy) / bh) * cols + (xx << sx) / bw;
                worst.upd(e, C9At { cfg, u8s, rgb: colors[cidx(bi)], plane: pl, a, b });
                n += 1;
            }
        }
    }
    n
}

pub fn c09(ctx: &Ctx) {
    let mut cfgs = Vec::new();
    for m in MATRICES {
        for t in TRANSFERS {
            for p in PRIMARIES {
                if p == CP::ST428 {
                    continue;
                }
                for full in [false, true] {
                    for n in 8u8..=16 {
                        cfgs.push((m, t, p, full, n));
                    }
                }
            }
        }
    }
    let ncol: usize = ctx.arg_u64("colors").unwrap_or(if ctx.flag("lite") { 130 } else { ctx.pick(1040, 16_384) }) as usize;
    let worst_by_tn: Mutex<std::collections::BTreeMap<(String, u8), f64>> = Mutex::new(Default::default());
    let gworst = Mutex::new(Worst::<C9At>::new());
    let evals = AtomicU64::new(0);
    let distinct = Distinct::new(ctx.pick(27, 30));
    let ss_used: Vec<AtomicU64> = (0..6).map(|_| AtomicU64::new(0)).collect();
    let wide_images = AtomicU64::new(0);
    ev::par_ranges("C09", cfgs.len() as u64, 4, |_w, a, b| {
        for ci in a..b {
            let (m, t, p, full, n) = cfgs[ci as usize];
            let mut rng = Rng::new(ctx.seed, 0x0C09_0000 + ci);
            let colors = c09_colors(&mut rng, ncol, n);
            for c in &colors {
                distinct.insert(hash_mix(ci, hash_px(*c)));
            }
            // quick: 4:4:4 plus one subsampled layout chosen by config index; thorough: all six
            let layouts: Vec<usize> = if ctx.tier == crate::Tier::Thorough { (0..6).collect() } else { vec![0, 1 + (ci as usize % 5)] };
            let mut w = Worst::new();
            for li in layouts {
                let cfg = cfg_full(m, t, p, full, n, SUBSAMPLINGS[li]);
                ss_used[li].fetch_add(1, Relaxed);
                let mut k = c09_one::<u16>(cfg, &colors, &mut w);
                if n == 8 {
                    k += c09_one::<u8>(cfg, &colors, &mut w);
                }
                evals.fetch_add(k, Relaxed);
            }
            // a few configs also get very wide images: more than 65,536 (chroma) columns, and rows of more than
            // 64 KiB of f32 pixels with several chroma rows
            let wide: Option<((u8, u8), usize, usize)> = match ci % 97 {
                13 => Some(((0, 0), 65_551, 1)),
                14 => Some(((1, 1), 2_731, 3)),
                15 if !ctx.flag("lite") => Some(((1, 0), 65_551, 1)),
                16 => Some(((0, 1), 5_471, 3)),
                _ => None,
            };
            if let Some((ss, cols, rows)) = wide {
                let cfg = cfg_full(m, t, p, full, n, ss);
                let k = if n == 8 && ci % 2 == 0 { c09_shape::<u8>(cfg, &colors, &mut w, cols, Some(rows)) } else { c09_shape::<u16>(cfg, &colors, &mut w, cols, Some(rows)) };
                wide_images.fetch_add(1, Relaxed);
                evals.fetch_add(k, Relaxed);
            }
            if !(w.err <= 1.0) {
                if let Some(at) = w.at {
                    ev::violation(
                        format!("C09|budget|{m:?}|{t:?}|{p:?}"),
                        format!(
                            "{:?}: plane {} sample {} came back {} ({:.2} x the budget of {:.1} codes) for RGB {:?}",
                            at.cfg,
                            at.plane,
                            at.a,
                            at.b,
                            w.err,
                            budget_codes(n),
                            at.rgb
                        ),
                        J::obj().set("kind", "c09").set("cfg", cfg_json(&at.cfg)).set("u8", at.u8s).set("rgb", px_json(at.rgb)).set("plane", at.plane).set("in", at.a).set("out", at.b),
                    );
                }
            }
            {
                let mut g = worst_by_tn.lock().unwrap();
                let e = g.entry((format!("{t:?}"), n)).or_insert(0.0);
                if w.err > *e {
                    *e = w.err;
                }
            }
            gworst.lock().unwrap().merge(&w);
        }
    });
    let g = gworst.lock().unwrap();
    ev::observe("worst_diff_over_budget", g.err);
    if let Some(at) = g.at {
        let j = J::obj().set("cfg", cfg_json(&at.cfg)).set("u8", at.u8s).set("rgb", px_json(at.rgb)).set("plane", at.plane).set("in", at.a).set("out", at.b);
        ev::observe("argmax", j.clone());
        ev::sample(j);
    }
    let tbl: Vec<J> = worst_by_tn.lock().unwrap().iter().map(|((t, n), e)| J::obj().set("transfer", t.as_str()).set("n", *n).set("worst_diff_over_budget", *e)).collect();
    ev::observe("worst_per_transfer_and_depth", J::Arr(tbl));
    ev::observe("configs", cfgs.len());
    ev::observe("very_wide_images", wide_images.load(Relaxed));
    ev::observe("layout_runs", J::Arr(SUBSAMPLINGS.iter().enumerate().map(|(i, s)| J::obj().set("ss", [s.0, s.1]).set("configs", ss_used[i].load(Relaxed))).collect()));
    ev::add_evals(evals.load(Relaxed));
    ev::add_nontrivial(distinct.count());
    ev::exhaustive(false);
    ev::rule(
        "all 7 x 14 x 10 (matrix, transfer, primaries != ST428) x {limited,full} x n=8..16 = 17,640 configs (u16; +u8 at n=8); per config an in-gamut image made by encoding RGB in [0,1]^3 \
         (33 greys, 8 cube corners, log-uniform near-black, uniform) with the library, laid out 13 blocks per row with pixels constant per chroma block; 4:4:4 plus subsampled layouts \
         (quick: one of (1,0),(1,1),(0,1),(2,0),(2,2) per config; thorough: all); every sample of every plane compared; distinct = hash bitset over (config, colour)",
    );
}

pub fn replay(mon: &str, case: &J) -> bool {
    let kind = case.get("kind").and_then(J::as_str).unwrap_or("");
    match kind {
        "xyb-forward" | "xyb-roundtrip" => {
            let Some(p) = case.get("pixel").and_then(parse_bits3) else { return false };
            let Ok(x) = xyb_of(vec![p], 1, 1) else { return false };
            ev::add_evals(1);
            if kind == "xyb-forward" {
                let want = lrgb_to_xyb(px64(p));
                let got = x.data()[0];
                let e = (0..3).map(|c| (got[c] as f64 - want[c]).abs()).fold(0.0, f64::max);
                ev::observe("replay", J::obj().set("got", got).set("want", want).set("abs_err", e));
                if !(e <= TOL_C04) {
                    ev::violation("C04|replay", format!("err {e:.3e}"), case.clone());
                }
            } else {
                let back = LinearRgb::from(x).data()[0];
                let e = (0..3).map(|c| (back[c] as f64 - p[c] as f64).abs()).fold(0.0, f64::max);
                ev::observe("replay", J::obj().set("back", back).set("abs_err", e));
                if !(e <= TOL_C05) {
                    ev::violation("C05|replay", format!("err {e:.3e}"), case.clone());
                }
            }
            true
        }
        "c09" => {
            let Some(cj) = case.get("cfg") else { return false };
            let (Some(m), Some(t), Some(p)) = (
                cj.get("matrix").and_then(J::as_str).and_then(mc_by_name),
                cj.get("transfer").and_then(J::as_str).and_then(tc_by_name),
                cj.get("primaries").and_then(J::as_str).and_then(cp_by_name),
            ) else {
                return false;
            };
            let n = cj.get("bit_depth").and_then(J::as_u64).unwrap_or(8) as u8;
            let full = cj.get("full_range").and_then(J::as_bool).unwrap_or(false);
            let ss = cj.get("ss").and_then(J::as_arr).map(|a| (a[0].as_u64().unwrap_or(0) as u8, a[1].as_u64().unwrap_or(0) as u8)).unwrap_or((0, 0));
            let Some(rgb) = case.get("rgb").and_then(parse_bits3) else { return false };
            let cfg = cfg_full(m, t, p, full, n, ss);
            let mut w = Worst::new();
            let u8s = case.get("u8").and_then(J::as_bool).unwrap_or(false);
            let k = if u8s { c09_one::<u8>(cfg, &[rgb], &mut w) } else { c09_one::<u16>(cfg, &[rgb], &mut w) };
            ev::add_evals(k);
            ev::observe("replay_worst_diff_over_budget", w.err);
            if !(w.err <= 1.0) {
                ev::violation("C09|replay", format!("{:.2} x budget", w.err), case.clone());
            }
            let _ = mon;
            true
        }
        _ => false,
    }
}
