//! The frame-geometry family shared by C07 (safety) and C12 (constructor contract):
//! frames a caller can build through the public `Frame`/`Plane` types.
use crate::gen::Rng;
use crate::json::J;
use yuvxyb::*;

#[derive(Clone, Copy, Debug, PartialEq, Eq)]
pub struct FrameSpec {
    pub w: usize,
    pub h: usize,
    /// chroma plane sizes (U, V), independent of luma
    pub cu: (usize, usize),
    pub cv: (usize, usize),
    /// plane decimation fields (U, V)
    pub du: (usize, usize),
    pub dv: (usize, usize),
    /// configured subsampling
    pub ss: (u8, u8),
    /// padding of Y, U, V planes; an entry p means xpad = ypad = p, except that p = 100 + k means
    /// (xpad, ypad) = (k, 0) and p = 200 + k means (0, k): horizontal-only / vertical-only padding
    pub pad: (usize, usize, usize),
    pub u8s: bool,
    pub depth: u8,
}

impl FrameSpec {
    pub fn json(&self) -> J {
        J::obj()
            .set("kind", "frame")
            .set("w", self.w)
            .set("h", self.h)
            .set("cu", [self.cu.0, self.cu.1])
            .set("cv", [self.cv.0, self.cv.1])
            .set("du", [self.du.0, self.du.1])
            .set("dv", [self.dv.0, self.dv.1])
            .set("ss", [self.ss.0, self.ss.1])
            .set("pad", [self.pad.0, self.pad.1, self.pad.2])
            .set("u8", self.u8s)
            .set("depth", self.depth)
    }
    pub fn from_json(j: &J) -> Option<FrameSpec> {
        let p2 = |k: &str| -> Option<(usize, usize)> {
            let a = j.get(k)?.as_arr()?;
            Some((a.first()?.as_u64()? as usize, a.get(1)?.as_u64()? as usize))
        };
        let pad = j.get("pad")?.as_arr()?;
        let ss = p2("ss")?;
        Some(FrameSpec {
            w: j.get("w")?.as_u64()? as usize,
            h: j.get("h")?.as_u64()? as usize,
            cu: p2("cu")?,
            cv: p2("cv")?,
            du: p2("du")?,
            dv: p2("dv")?,
            ss: (ss.0 as u8, ss.1 as u8),
            pad: (pad.first()?.as_u64()? as usize, pad.get(1)?.as_u64()? as usize, pad.get(2)?.as_u64()? as usize),
            u8s: j.get("u8")?.as_bool()?,
            depth: j.get("depth")?.as_u64()? as u8,
        })
    }
    pub fn desc(&self) -> String {
        format!(
            "{}x{} cu={:?} cv={:?} du={:?} dv={:?} ss={:?} pad={:?} {} depth={}",
            self.w,
            self.h,
            self.cu,
            self.cv,
            self.du,
            self.dv,
            self.ss,
            self.pad,
            if self.u8s { "u8" } else { "u16" },
            self.depth
        )
    }
    pub fn config(&self) -> YuvConfig {
        YuvConfig {
            bit_depth: self.depth,
            subsampling_x: self.ss.0,
            subsampling_y: self.ss.1,
            full_range: self.h % 2 == 0,
            // every matrix value appears (the constructor must not care); fully specified, so the config is returned verbatim
            matrix_coefficients: [
                MatrixCoefficients::BT709,
                MatrixCoefficients::Identity,
                MatrixCoefficients::BT470BG,
                MatrixCoefficients::YCgCo,
                MatrixCoefficients::BT2020ConstantLuminance,
                MatrixCoefficients::ST2085,
                MatrixCoefficients::ICtCp,
                MatrixCoefficients::Reserved,
                MatrixCoefficients::BT2020NonConstantLuminance,
                MatrixCoefficients::ChromaticityDerivedNonConstantLuminance,
                MatrixCoefficients::ChromaticityDerivedConstantLuminance,
            ][(self.w * 3 + self.h + self.pad.1 + self.depth as usize) % 11],
            transfer_characteristics: TransferCharacteristic::BT1886,
            color_primaries: ColorPrimaries::BT709,
        }
    }
    /// which of the property's rejection conditions hold (model of C12)
    pub fn model(&self) -> Model {
        let (sx, sy) = (self.ss.0 as usize, self.ss.1 as usize);
        Model {
            dec_mismatch: self.du != (sx, sy) || self.dv != (sx, sy),
            bad_width: self.w % (1 << sx) != 0,
            bad_height: self.h % (1 << sy) != 0,
            bad_chroma_size: self.cu != (self.w >> sx, self.h >> sy) || self.cv != (self.w >> sx, self.h >> sy),
        }
    }
}

#[derive(Clone, Copy, Debug, PartialEq, Eq)]
pub struct Model {
    pub dec_mismatch: bool,
    pub bad_width: bool,
    pub bad_height: bool,
    pub bad_chroma_size: bool,
}
impl Model {
    pub fn well_formed(&self) -> bool {
        !(self.dec_mismatch || self.bad_width || self.bad_height || self.bad_chroma_size)
    }
    /// is `e` an acceptable verdict for this geometry (ignoring sample values)?
    pub fn allows(&self, e: YuvError) -> bool {
        match e {
            YuvError::SubsamplingMismatch => self.dec_mismatch || self.bad_chroma_size,
            YuvError::InvalidLumaWidth => self.bad_width || self.bad_chroma_size,
            YuvError::InvalidLumaHeight => self.bad_height || self.bad_chroma_size,
            // the property names no variant for a chroma-size mismatch: any YuvError is accepted there
            YuvError::InvalidData => self.bad_chroma_size,
        }
    }
}

pub fn build<T: Pixel>(s: &FrameSpec, rng: &mut Rng) -> Frame<T> {
    let maxv: u64 = if s.u8s { 255.min((1u64 << s.depth) - 1) } else { (1u64 << s.depth) - 1 };
    let mut f: Frame<T> = Frame {
        planes: [
            Plane::new(s.w, s.h, 0, 0, xypad(s.pad.0).0, xypad(s.pad.0).1),
            Plane::new(s.cu.0, s.cu.1, s.du.0, s.du.1, xypad(s.pad.1).0, xypad(s.pad.1).1),
            Plane::new(s.cv.0, s.cv.1, s.dv.0, s.dv.1, xypad(s.pad.2).0, xypad(s.pad.2).1),
        ],
    };
    // cheap deterministic fill of the whole buffer (visible area and padding) with legal codes
    let mask = maxv as u32; // 2^k - 1
    let mut k = rng.next() as u32;
    for p in f.planes.iter_mut() {
        for v in p.data.iter_mut() {
            k = k.wrapping_mul(1_664_525).wrapping_add(1_013_904_223);
            *v = T::cast_from((k >> 12) & mask);
        }
    }
    f
}

pub const PADS: [(usize, usize, usize); 8] = [(0, 0, 0), (1, 1, 1), (116, 116, 116), (17, 17, 17), (0, 0, 17), (0, 17, 0), (203, 0, 107), (1, 7, 0)];

/// decode a padding entry into (xpad, ypad)
pub fn xypad(p: usize) -> (usize, usize) {
    if p >= 200 {
        (0, p - 200)
    } else if p >= 100 {
        (p - 100, 0)
    } else {
        (p, p)
    }
}
pub const TYPES: [(bool, u8); 4] = [(true, 8), (false, 8), (false, 10), (false, 16)];

fn chroma_candidates(luma: usize, s: usize, full: bool) -> Vec<usize> {
    if full {
        return (0..=13).collect();
    }
    let c = luma >> s;
    vec![0, 1, c.saturating_sub(1), c, c + 1, luma, 13]
}

/// V-plane variants relative to U: 0 same; 1..4 one dimension +-1; 5,6 V decimation differs
fn v_variant(cu: (usize, usize), du: (usize, usize), k: usize) -> ((usize, usize), (usize, usize)) {
    match k {
        0 => (cu, du),
        1 => ((cu.0 + 1, cu.1), du),
        2 => ((cu.0.saturating_sub(1), cu.1), du),
        3 => ((cu.0, cu.1 + 1), du),
        4 => ((cu.0, cu.1.saturating_sub(1)), du),
        5 => (cu, ((du.0 + 1) % 3, du.1)),
        _ => (cu, (du.0, (du.1 + 1) % 3)),
    }
}

/// Number of specs enumerated per luma size.
pub fn specs_per_luma(full: bool) -> u64 {
    let nc = if full { 14 } else { 7 } as u64;
    // (A) dec == ss: 9 ss x nc^2 chroma-U x 7 V variants x 8 pads x 4 types
    // (B) dec != ss: 72 (dec,ss) x 2 chroma choices x 2 pads x 2 types
    // (C) exactly one chroma plane's decimation differs on exactly one axis, sizes right: 9 ss x {U,V} x {x,y} x 2 pads x 2 types
    9 * nc * nc * 7 * 8 * 4 + 72 * 2 * 2 * 2 + 9 * 2 * 2 * 2 * 2
}

/// Enumerate the family for one luma size; `f(local_index, spec)`.
pub fn for_luma(w: usize, h: usize, full: bool, mut f: impl FnMut(u64, FrameSpec)) {
    let mut i = 0u64;
    for ssx in 0..3u8 {
        for ssy in 0..3u8 {
            let ss = (ssx, ssy);
            let du = (ssx as usize, ssy as usize);
            let cws = chroma_candidates(w, ssx as usize, full);
            let chs = chroma_candidates(h, ssy as usize, full);
            for &cw in &cws {
                for &ch in &chs {
                    for vk in 0..7 {
                        let (cv, dv) = v_variant((cw, ch), du, vk);
                        for pad in PADS {
                            for (u8s, depth) in TYPES {
                                f(i, FrameSpec { w, h, cu: (cw, ch), cv, du, dv, ss, pad, u8s, depth });
                                i += 1;
                            }
                        }
                    }
                }
            }
        }
    }
    for dx in 0..3usize {
        for dy in 0..3usize {
            for ssx in 0..3u8 {
                for ssy in 0..3u8 {
                    if (dx, dy) == (ssx as usize, ssy as usize) {
                        continue;
                    }
                    for by_ss in [false, true] {
                        let c = if by_ss { (w >> ssx, h >> ssy) } else { (w >> dx, h >> dy) };
                        for pad in [PADS[0], PADS[3]] {
                            for (u8s, depth) in [TYPES[0], TYPES[2]] {
                                f(i, FrameSpec { w, h, cu: c, cv: c, du: (dx, dy), dv: (dx, dy), ss: (ssx, ssy), pad, u8s, depth });
                                i += 1;
                            }
                        }
                    }
                }
            }
        }
    }
    for ssx in 0..3u8 {
        for ssy in 0..3u8 {
            let good = (ssx as usize, ssy as usize);
            let c = (w >> ssx, h >> ssy);
            for plane_u in [true, false] {
                for axis_x in [true, false] {
                    let bad = if axis_x { ((good.0 + 1) % 3, good.1) } else { (good.0, (good.1 + 1) % 3) };
                    let (du, dv) = if plane_u { (bad, good) } else { (good, bad) };
                    for pad in [PADS[0], PADS[3]] {
                        for (u8s, depth) in [TYPES[0], TYPES[2]] {
                            f(i, FrameSpec { w, h, cu: c, cv: c, du, dv, ss: (ssx, ssy), pad, u8s, depth });
                            i += 1;
                        }
                    }
                }
            }
        }
    }
    debug_assert_eq!(i, specs_per_luma(full));
}

/// Luma sizes: all of 1..=12 squared, then selected larger ones.
pub fn luma_sizes() -> Vec<(usize, usize)> {
    let mut v = Vec::new();
    for w in 1..=12 {
        for h in 1..=12 {
            v.push((w, h));
        }
    }
    v.extend([(64, 48), (66, 50), (320, 240), (63, 47), (128, 4), (4, 128)]);
    // images without pixels
    v.extend([(0, 0), (0, 1), (0, 2), (0, 5), (1, 0), (2, 0), (4, 0)]);
    v
}
