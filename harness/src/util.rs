//! Shared helpers: enum tables, frame builders, config helpers.
use crate::json::J;
use yuvxyb::*;
pub use yuvxyb::{ColorPrimaries as CP, MatrixCoefficients as MC, TransferCharacteristic as TC};

pub const ALL_MC: [MC; 14] = [
    MC::Identity,
    MC::BT709,
    MC::Reserved,
    MC::BT470M,
    MC::BT470BG,
    MC::ST170M,
    MC::ST240M,
    MC::YCgCo,
    MC::BT2020NonConstantLuminance,
    MC::BT2020ConstantLuminance,
    MC::ST2085,
    MC::ChromaticityDerivedNonConstantLuminance,
    MC::ChromaticityDerivedConstantLuminance,
    MC::ICtCp,
];
pub const ALL_CP: [CP; 13] = [
    CP::Reserved0,
    CP::BT709,
    CP::Reserved,
    CP::BT470M,
    CP::BT470BG,
    CP::ST170M,
    CP::ST240M,
    CP::Film,
    CP::BT2020,
    CP::ST428,
    CP::P3DCI,
    CP::P3Display,
    CP::Tech3213,
];
pub const ALL_TC: [TC; 18] = [
    TC::Reserved0,
    TC::BT1886,
    TC::Reserved,
    TC::BT470M,
    TC::BT470BG,
    TC::ST170M,
    TC::ST240M,
    TC::Linear,
    TC::Logarithmic100,
    TC::Logarithmic316,
    TC::XVYCC,
    TC::BT1361E,
    TC::SRGB,
    TC::BT2020Ten,
    TC::BT2020Twelve,
    TC::PerceptualQuantizer,
    TC::ST428,
    TC::HybridLogGamma,
];

pub fn cfg444(m: MC, full: bool, n: u8) -> YuvConfig {
    YuvConfig {
        bit_depth: n,
        subsampling_x: 0,
        subsampling_y: 0,
        full_range: full,
        matrix_coefficients: m,
        transfer_characteristics: TC::BT1886,
        color_primaries: CP::BT709,
    }
}
pub fn cfg_full(m: MC, t: TC, p: CP, full: bool, n: u8, ss: (u8, u8)) -> YuvConfig {
    YuvConfig {
        bit_depth: n,
        subsampling_x: ss.0,
        subsampling_y: ss.1,
        full_range: full,
        matrix_coefficients: m,
        transfer_characteristics: t,
        color_primaries: p,
    }
}
pub fn cfg_json(c: &YuvConfig) -> J {
    J::obj()
        .set("bit_depth", c.bit_depth)
        .set("ss", [c.subsampling_x, c.subsampling_y])
        .set("full_range", c.full_range)
        .set("matrix", format!("{:?}", c.matrix_coefficients))
        .set("transfer", format!("{:?}", c.transfer_characteristics))
        .set("primaries", format!("{:?}", c.color_primaries))
}

/// N x 1 4:4:4 frame from code triples
pub fn mk_yuv<T: Pixel>(tri: &[[u32; 3]], cfg: YuvConfig) -> Yuv<T> {
    let n = tri.len();
    let mut f: Frame<T> = Frame {
        planes: [Plane::new(n, 1, 0, 0, 0, 0), Plane::new(n, 1, 0, 0, 0, 0), Plane::new(n, 1, 0, 0, 0, 0)],
    };
    for p in 0..3 {
        let d = f.planes[p].data_origin_mut();
        for (i, t) in tri.iter().enumerate() {
            d[i] = T::cast_from(t[p]);
        }
    }
    Yuv::new(f, cfg).expect("well-formed 4:4:4 frame")
}

/// w x h frame with given subsampling and padding; samples from `f(plane,x,y)`
pub fn mk_frame<T: Pixel>(w: usize, h: usize, ss: (u8, u8), pad: usize, mut f: impl FnMut(usize, usize, usize) -> u32) -> Frame<T> {
    let (cw, ch) = (w >> ss.0, h >> ss.1);
    let mut fr: Frame<T> = Frame {
        planes: [
            Plane::new(w, h, 0, 0, pad, pad),
            Plane::new(cw, ch, ss.0 as usize, ss.1 as usize, pad >> ss.0, pad >> ss.1),
            Plane::new(cw, ch, ss.0 as usize, ss.1 as usize, pad >> ss.0, pad >> ss.1),
        ],
    };
    for p in 0..3 {
        let (pw, ph) = if p == 0 { (w, h) } else { (cw, ch) };
        let stride = fr.planes[p].cfg.stride;
        let d = fr.planes[p].data_origin_mut();
        for y in 0..ph {
            for x in 0..pw {
                d[y * stride + x] = T::cast_from(f(p, x, y));
            }
        }
    }
    fr
}

/// Letterboxed layout of `px`: rows of `w` pixels, two all-black rows on top, one in the middle and none at
/// the bottom (asymmetric bars). Returns the pixels, for each the index into `px` (usize::MAX for a bar pixel), and the height.
pub fn letterbox(px: &[[f32; 3]], w: usize, black: [f32; 3]) -> (Vec<[f32; 3]>, Vec<usize>, usize) {
    let rows = px.len() / w;
    let mut v = Vec::with_capacity((rows + 3) * w);
    let mut idx = Vec::with_capacity((rows + 3) * w);
    let bar = |v: &mut Vec<[f32; 3]>, idx: &mut Vec<usize>| {
        for _ in 0..w {
            v.push(black);
            idx.push(usize::MAX);
        }
    };
    bar(&mut v, &mut idx);
    bar(&mut v, &mut idx);
    for r in 0..rows {
        if r == rows / 2 && rows > 1 {
            bar(&mut v, &mut idx);
        }
        for x in 0..w {
            v.push(px[r * w + x]);
            idx.push(r * w + x);
        }
    }
    let h = v.len() / w;
    (v, idx, h)
}

pub fn px64(p: [f32; 3]) -> [f64; 3] {
    [p[0] as f64, p[1] as f64, p[2] as f64]
}
pub fn bits3(p: [f32; 3]) -> J {
    J::Arr(p.iter().map(|v| J::Str(format!("{:#010x}", v.to_bits()))).collect())
}
pub fn px_json(p: [f32; 3]) -> J {
    J::obj().set("f32", p).set("bits", bits3(p))
}
pub fn parse_bits3(j: &J) -> Option<[f32; 3]> {
    let a = j.get("bits")?.as_arr()?;
    let mut o = [0f32; 3];
    for i in 0..3 {
        let s = a.get(i)?.as_str()?;
        o[i] = f32::from_bits(u32::from_str_radix(s.trim_start_matches("0x"), 16).ok()?);
    }
    Some(o)
}

pub fn mc_by_name(s: &str) -> Option<MC> {
    ALL_MC.iter().copied().chain([MC::Unspecified]).find(|m| format!("{m:?}") == s)
}
pub fn tc_by_name(s: &str) -> Option<TC> {
    ALL_TC.iter().copied().chain([TC::Unspecified]).find(|m| format!("{m:?}") == s)
}
pub fn cp_by_name(s: &str) -> Option<CP> {
    ALL_CP.iter().copied().chain([CP::Unspecified]).find(|m| format!("{m:?}") == s)
}

/// the shape given to an n-pixel batch (a conversion works pixel by pixel, so any w x h = n will do)
pub fn batch_shape(n: usize) -> (usize, usize) {
    if n >= 32 && n % 16 == 0 {
        (16, n / 16)
    } else if n >= 14 && n % 7 == 0 {
        (n / 7, 7)
    } else {
        (n, 1)
    }
}

pub fn lin_of(t: TC, v: Vec<[f32; 3]>) -> Result<Vec<[f32; 3]>, String> {
    let (n, h) = batch_shape(v.len());
    let rgb = Rgb::new(v, n, h, t, CP::BT709).map_err(|e| format!("Rgb::new: {e:?}"))?;
    LinearRgb::try_from(rgb).map(LinearRgb::into_data).map_err(|e| format!("{e:?}"))
}
pub fn gam_of(t: TC, v: Vec<[f32; 3]>) -> Result<Vec<[f32; 3]>, String> {
    let (n, h) = batch_shape(v.len());
    let l = LinearRgb::new(v, n, h).map_err(|e| format!("LinearRgb::new: {e:?}"))?;
    Rgb::try_from((l, t, CP::BT709)).map(Rgb::into_data).map_err(|e| format!("{e:?}"))
}

/// ulp distance of `a` from the real value `want` (units: ulp of the correctly rounded f32)
pub fn ulp_diff(a: f32, want: f64) -> f64 {
    let w = want as f32;
    if !w.is_finite() || !a.is_finite() {
        return if w.to_bits() == a.to_bits() { 0.0 } else { f64::INFINITY };
    }
    let wa = w.abs();
    let u = if wa == 0.0 { f32::from_bits(1) as f64 } else { (f32::from_bits(wa.to_bits() + 1) - wa) as f64 };
    ((a as f64) - want).abs() / u
}
